// C13 — endpoint policies apply only to requests matching their declared endpoint.
//
// Real code driven: config.BuildEndpointPolicyTree, EndpointPolicyTree.Lookup and the
// method-map selection that runner.getRemedies performs (restated in observe(); the
// dispatcher unit cross-checks that restatement against runner.DispatchOnRequest).
//
// Oracle: an independent segment-wise matcher + specificity order (spec*), evaluated
// under every reading the statement leaves open. Two defect models (alias / greedy)
// reproduce the known deviations of the implementation exactly; a deviation is
// attributed to a listed finding only if the implementation agrees with that model.
package c13

import (
	"fmt"
	"io"
	"reflect"
	"sort"
	"strings"
	"testing"

	"lunar/engine/config"
	lunarMessages "lunar/engine/messages"
	"lunar/engine/runner"
	"lunar/engine/services"
	"lunar/engine/services/remedies"
	sharedConfig "lunar/shared-model/config"
	"lunar/toolkit-core/clock"
	"lunar/toolkit-core/urltree"

	"github.com/rs/zerolog"
	zlog "github.com/rs/zerolog/log"
	"pgregory.net/rapid"

	"verif/harness/internal/ev"
)

func init() { zerolog.SetGlobalLevel(zerolog.Disabled) }

const (
	findingAlias  = "C13-F1" // policy map found by Lookup(new pattern) is reused and mutated
	findingGreedy = "C13-F2" // greedy descent, no back-tracking
)

// ---- declarations ------------------------------------------------------------

type decl struct {
	Method   string `json:"method"`
	URL      string `json:"url"`
	Remedy   string `json:"remedy,omitempty"` // unique name; "" = no remedy
	Kind     int    `json:"kind"`             // remedy type index (distinct per declaration)
	Disabled bool   `json:"disabled,omitempty"`
	Diag     string `json:"diag,omitempty"` // unique diagnosis name; "" = none
}

type request struct {
	Method string `json:"method"`
	URL    string `json:"url"`
	// Trail: separators ('/' or '.') the proxy passes on behind the URL ("h.com/a/"). The engine is given
	// URL+Trail; the specification is evaluated on URL (the engine documents that it ignores separators around
	// a URL), and "no policy at all" is accepted as well (the other reading: a further, empty segment).
	Trail string `json:"trailing_separators,omitempty"`
}

func remedyOfKind(name string, kind int, enabled bool) sharedConfig.Remedy {
	r := sharedConfig.Remedy{Enabled: enabled, Name: name}
	switch kind % 9 {
	case 0:
		r.Config.Caching = &sharedConfig.CachingConfig{}
	case 1:
		r.Config.ResponseBasedThrottling = &sharedConfig.ResponseBasedThrottlingConfig{}
	case 2:
		r.Config.StrategyBasedThrottling = &sharedConfig.StrategyBasedThrottlingConfig{}
	case 3:
		r.Config.StrategyBasedQueue = &sharedConfig.StrategyBasedQueueConfig{}
	case 4:
		r.Config.ConcurrencyBasedThrottling = &sharedConfig.ConcurrencyBasedThrottlingConfig{}
	case 5:
		r.Config.AccountOrchestration = &sharedConfig.AccountOrchestrationConfig{}
	case 6:
		r.Config.FixedResponse = &sharedConfig.FixedResponseConfig{StatusCode: 200}
	case 7:
		r.Config.Retry = &sharedConfig.RetryConfig{}
	case 8:
		r.Config.Authentication = &sharedConfig.AuthConfig{}
	}
	return r
}

func (d decl) endpoint() sharedConfig.EndpointConfig {
	e := sharedConfig.EndpointConfig{URL: d.URL, Method: d.Method, Remedies: []sharedConfig.Remedy{}, Diagnosis: []sharedConfig.Diagnosis{}}
	if d.Remedy != "" {
		e.Remedies = append(e.Remedies, remedyOfKind(d.Remedy, d.Kind, !d.Disabled))
	}
	if d.Diag != "" {
		e.Diagnosis = append(e.Diagnosis, sharedConfig.Diagnosis{Enabled: true, Name: d.Diag, Export: "file",
			Config: sharedConfig.DiagnosisConfig{Void: &sharedConfig.VoidConfig{}}})
	}
	return e
}

// names of the plugins of d that would run (enabled ones), sorted.
func (d decl) active() []string {
	out := []string{}
	if d.Remedy != "" && !d.Disabled {
		out = append(out, d.Remedy)
	}
	if d.Diag != "" {
		out = append(out, d.Diag)
	}
	sort.Strings(out)
	return out
}

// ---- URL splitting (independent of urltree) ------------------------------------

type part struct {
	v    string
	host bool
}

func splitParts(u string) []part {
	u = strings.Trim(u, "./")
	segs := strings.Split(u, "/")
	out := []part{}
	for _, h := range strings.Split(segs[0], ".") {
		out = append(out, part{h, true})
	}
	for _, s := range segs[1:] {
		out = append(out, part{s, false})
	}
	return out
}

func paramName(s string) (string, bool) {
	if strings.HasPrefix(s, "{") && strings.HasSuffix(s, "}") {
		return strings.Trim(s, "{}"), true
	}
	return "", false
}

func delim(p part) string {
	if p.host {
		return "."
	}
	return "/"
}

// ---- specification: matcher + specificity ---------------------------------------

type pat struct {
	url   string
	fixed []part // parts before a trailing wildcard
	wild  bool
}

func parsePat(url string) pat {
	ps := splitParts(url)
	p := pat{url: url}
	if n := len(ps); n > 0 && ps[n-1].v == "*" {
		p.wild = true
		ps = ps[:n-1]
	}
	p.fixed = ps
	return p
}

// match: literal parts equal, {name} = exactly one non-empty part, trailing * covers
// at least minWild further path parts.
func (p pat) match(u []part, minWild int) (bool, map[string]string) {
	n := len(p.fixed)
	if p.wild {
		if len(u) < n+minWild {
			return false, nil
		}
	} else if len(u) != n {
		return false, nil
	}
	params := map[string]string{}
	for i, pp := range p.fixed {
		if pp.host != u[i].host {
			return false, nil
		}
		if name, ok := paramName(pp.v); ok {
			if u[i].v == "" && !emptyParam {
				return false, nil
			}
			params[name] = u[i].v
		} else if pp.v != u[i].v {
			return false, nil
		}
	}
	for _, rest := range u[n:] {
		if rest.host {
			return false, nil
		}
	}
	return true, params
}

// kinds: 0 literal, 1 parameter per fixed part, then 2 for a wildcard or -1 for "ends here".
func (p pat) kinds() []int {
	k := []int{}
	for _, pp := range p.fixed {
		if _, ok := paramName(pp.v); ok {
			k = append(k, 1)
		} else {
			k = append(k, 0)
		}
	}
	if p.wild {
		return append(k, 2)
	}
	return append(k, -1)
}

// moreSpecific: left-to-right, literal over parameter over wildcard, exact end over wildcard.
func moreSpecific(a, b pat) bool {
	ka, kb := a.kinds(), b.kinds()
	for i := 0; i < len(ka) && i < len(kb); i++ {
		if ka[i] != kb[i] {
			return ka[i] < kb[i]
		}
	}
	return false
}

type outcome struct {
	Applied []string          `json:"applied"`
	Norm    string            `json:"normalized_url,omitempty"`
	Params  map[string]string `json:"path_params,omitempty"`
	Policy  string            `json:"policy_url,omitempty"` // informational
}

// agrees: does the observed outcome agree with the expected one? Applied plugins and
// the normalised URL must be equal and every parameter of the expected (winning)
// pattern must be reported with the expected value. Further reported parameters are
// accepted when they are the request's segment at a position where a declared pattern
// carries a parameter of that name (the lookup keeps the parameters of a branch it
// abandoned for an ancestor wildcard; the statement does not forbid that).
func agrees(obs, want outcome, ds []decl, q request) bool {
	if hasEmptyInterior(q.URL) && !emptyParamAlt {
		// the reading "a parameter is one non-empty segment" is accepted too
		emptyParamAlt = true
		strict := specOutcomeAs(ds, q, reading0)
		ok := agrees(obs, strict, ds, q)
		emptyParamAlt = false
		if ok {
			return true
		}
	}
	if q.Trail != "" && len(obs.Applied) == 0 {
		return true // reading "a trailing separator starts a further, empty segment": nothing needs to match
	}
	if !reflect.DeepEqual(obs.Applied, want.Applied) {
		return false
	}
	if len(obs.Applied) == 0 {
		return true // nothing is reported when nothing is applied
	}
	if obs.Norm != want.Norm {
		return false
	}
	for k, v := range want.Params {
		if w, ok := obs.Params[k]; !ok || w != v {
			return false
		}
	}
	u := splitParts(q.URL)
	for k, v := range obs.Params {
		if _, ok := want.Params[k]; ok {
			continue
		}
		legit := false
		for _, d := range ds {
			for i, pp := range parsePat(d.URL).fixed {
				if name, isP := paramName(pp.v); isP && name == k && i < len(u) && u[i].v == v {
					legit = true
				}
			}
		}
		if !legit {
			return false
		}
	}
	return true
}

func extraParams(obs, want outcome) bool {
	return len(obs.Applied) > 0 && len(obs.Params) > len(want.Params)
}

// identical is used between two observations (order independence)
func identical(a, b outcome) bool {
	if !reflect.DeepEqual(a.Applied, b.Applied) {
		return false
	}
	if len(a.Applied) == 0 {
		return true
	}
	if a.Norm != b.Norm || len(a.Params) != len(b.Params) {
		return false
	}
	for k, v := range a.Params {
		if w, ok := b.Params[k]; !ok || w != v {
			return false
		}
	}
	return true
}

func distinctPatterns(ds []decl) []string {
	seen := map[string]bool{}
	out := []string{}
	for _, d := range ds {
		if !seen[d.URL] {
			seen[d.URL] = true
			out = append(out, d.URL)
		}
	}
	sort.Strings(out)
	return out
}

type reading struct {
	perMethod bool // specificity among the patterns declared for the request's method only
	minWild   int  // 0: "/*" also covers zero further segments; 1: at least one
}

func (r reading) String() string {
	s := "all-methods"
	if r.perMethod {
		s = "per-method"
	}
	return fmt.Sprintf("%s,wild>=%d", s, r.minWild)
}

var reading0 = reading{false, 0} // the reading the implementation is built on
var altReadings = []reading{{false, 1}, {true, 0}, {true, 1}}

// emptyParam: whether {name} also stands for an empty segment. The statement does not say; an empty segment inside
// a URL only arises from "//" (an absolute URL embedded in the path). For such requests the expectation is computed
// with the reading the engine implements (it does), and the other reading is accepted as well (see agrees).
var emptyParam bool
var emptyParamAlt bool // recursion guard of agrees

func hasEmptyInterior(url string) bool { return strings.Contains(strings.Trim(url, "./"), "//") }

func specOutcome(ds []decl, q request, rd reading) outcome {
	emptyParam = hasEmptyInterior(q.URL)
	defer func() { emptyParam = false }()
	return specOutcomeAs(ds, q, rd)
}

func specOutcomeAs(ds []decl, q request, rd reading) outcome {
	u := splitParts(q.URL)
	var best *pat
	var bestParams map[string]string
	for _, url := range distinctPatterns(ds) {
		if rd.perMethod {
			has := false
			for _, d := range ds {
				if d.URL == url && d.Method == q.Method {
					has = true
				}
			}
			if !has {
				continue
			}
		}
		p := parsePat(url)
		ok, params := p.match(u, rd.minWild)
		if !ok {
			continue
		}
		if best == nil || moreSpecific(p, *best) {
			pp := p
			best, bestParams = &pp, params
		}
	}
	if best == nil {
		return outcome{Applied: []string{}}
	}
	applied := []string{}
	for _, d := range ds {
		if d.URL == best.url && d.Method == q.Method {
			applied = append(applied, d.active()...)
		}
	}
	sort.Strings(applied)
	if len(applied) == 0 {
		return outcome{Applied: applied}
	}
	return outcome{Applied: applied, Norm: best.url, Params: bestParams, Policy: best.url}
}

func matchingPatterns(ds []decl, q request) []string {
	u := splitParts(q.URL)
	out := []string{}
	for _, url := range distinctPatterns(ds) {
		if ok, _ := parsePat(url).match(u, 0); ok {
			out = append(out, url)
		}
	}
	return out
}

// ---- model of the implementation with its three deviations as switches ------------

type defects struct{ alias, greedy bool }

func (d defects) ids() []string {
	out := []string{}
	if d.alias {
		out = append(out, findingAlias)
	}
	if d.greedy {
		out = append(out, findingGreedy)
	}
	return out
}

// ordered by size, so that the smallest explanation is found first
var defectSubsets = []defects{{false, false}, {true, false}, {false, true}, {true, true}}

type mval struct{ byMethod map[string]int } // method -> index of the declaration

type mnode struct {
	consts  map[string]*mnode
	pname   string
	pchild  *mnode
	wild    *mnode
	val     *mval
	host    bool
	pattern string
}

type mfound struct {
	node   *mnode
	path   string
	params map[string]string
}

func cloneParams(m map[string]string) map[string]string {
	o := map[string]string{}
	for k, v := range m {
		o[k] = v
	}
	return o
}

func wildPath(parent string, w *mnode) string {
	return parent + delim(part{host: w.host}) + "*"
}

// lookupGreedy follows urltree.lookupNode step by step.
func (root *mnode) lookupGreedy(url string) (mfound, bool) {
	cur := root
	var found *mnode
	foundPath := ""
	path := ""
	params := map[string]string{}
	trim := func(s string) string { return strings.Trim(s, "./") }
	for _, p := range splitParts(url) {
		// (a wildcard declared in the path does not take a further host label, see hostBehindPathWild)
		if cur.wild != nil && !hostBehindPathWild(cur, p) {
			found, foundPath = cur.wild, wildPath(path, cur.wild)
			if p.v == "*" {
				return mfound{found, trim(foundPath), params}, true
			}
		}
		if c, ok := cur.consts[p.v]; ok && c.host == p.host {
			cur = c
			path += delim(p) + p.v
			continue
		}
		if cur.pchild != nil && cur.pchild.host == p.host {
			if _, isP := paramName(p.v); !isP {
				params[cur.pname] = p.v
			}
			path += delim(p) + "{" + cur.pname + "}"
			cur = cur.pchild
			continue
		}
		if _, isP := paramName(p.v); isP {
			return mfound{}, false
		}
		if found != nil {
			return mfound{found, trim(foundPath), params}, true
		}
		return mfound{}, false
	}
	if cur.val != nil {
		return mfound{cur, trim(path), params}, true
	}
	if cur.wild != nil {
		return mfound{cur.wild, trim(wildPath(path, cur.wild)), params}, true
	}
	if found != nil {
		return mfound{found, trim(foundPath), params}, true
	}
	return mfound{}, false
}

// lookupBT: the same precedence (literal, parameter, wildcard) with back-tracking.
func (n *mnode) lookupBT(parts []part, i int, path string, params map[string]string) (mfound, bool) {
	trim := func(s string) string { return strings.Trim(s, "./") }
	if i == len(parts) {
		if n.val != nil {
			return mfound{n, trim(path), params}, true
		}
		if n.wild != nil {
			return mfound{n.wild, trim(wildPath(path, n.wild)), params}, true
		}
		return mfound{}, false
	}
	p := parts[i]
	if n.wild != nil && p.v == "*" {
		return mfound{n.wild, trim(wildPath(path, n.wild)), params}, true
	}
	if c, ok := n.consts[p.v]; ok && c.host == p.host {
		if f, ok := c.lookupBT(parts, i+1, path+delim(p)+p.v, params); ok {
			return f, true
		}
	}
	_, isP := paramName(p.v)
	if n.pchild != nil && n.pchild.host == p.host {
		np := params
		if !isP {
			np = cloneParams(params)
			np[n.pname] = p.v
		}
		if f, ok := n.pchild.lookupBT(parts, i+1, path+delim(p)+"{"+n.pname+"}", np); ok {
			return f, true
		}
	}
	if isP {
		return mfound{}, false
	}
	if n.wild != nil && !hostBehindPathWild(n, p) {
		return mfound{n.wild, trim(wildPath(path, n.wild)), params}, true
	}
	return mfound{}, false
}

// hostBehindPathWild: p is a further host label of the request while n is a host node whose wildcard child was
// declared in the path (h.com/* looked up with h.com.other): no match (repaired in /repo, see known_findings.json).
func hostBehindPathWild(n *mnode, p part) bool { return p.host && n.host && !n.wild.host }

func (root *mnode) lookup(url string, greedy bool) (mfound, bool) {
	if greedy {
		return root.lookupGreedy(url)
	}
	return root.lookupBT(splitParts(url), 0, "", map[string]string{})
}

func (root *mnode) insert(url string, v *mval) error {
	cur := root
	for _, p := range splitParts(url) {
		if p.v == "*" {
			cur.wild = &mnode{host: p.host}
			cur = cur.wild
			continue
		}
		if name, ok := paramName(p.v); ok {
			if cur.pchild != nil {
				if cur.pname != name {
					return fmt.Errorf("path parameter name %q does not match existing name %q", name, cur.pname)
				}
			} else {
				cur.pname, cur.pchild = name, &mnode{host: p.host}
			}
			cur = cur.pchild
			continue
		}
		if cur.consts == nil {
			cur.consts = map[string]*mnode{}
		}
		if _, ok := cur.consts[p.v]; !ok {
			cur.consts[p.v] = &mnode{host: p.host}
		}
		cur = cur.consts[p.v]
	}
	cur.val, cur.pattern = v, url
	return nil
}

type model struct {
	root    *mnode
	aliased bool // some declaration re-used the map of a node that carries another pattern
}

// buildModel: BuildEndpointPolicyTree. With alias on, the map of whatever node
// Lookup(new pattern) returns is mutated and shared (the implementation); with alias
// off, one map per declared pattern.
func buildModel(ds []decl, alias, greedy bool) (*model, error) {
	m := &model{root: &mnode{}}
	byPattern := map[string]*mval{}
	for i, d := range ds {
		var v *mval
		if alias {
			if f, ok := m.root.lookup(d.URL, greedy); ok && f.node.val != nil {
				v = f.node.val
				if f.node.pattern != strings.Trim(d.URL, "./") && f.node.pattern != d.URL {
					m.aliased = true
				}
			}
		} else {
			v = byPattern[strings.Trim(d.URL, "./")]
		}
		if v == nil {
			v = &mval{byMethod: map[string]int{}}
		}
		v.byMethod[d.Method] = i
		byPattern[strings.Trim(d.URL, "./")] = v
		if err := m.root.insert(d.URL, v); err != nil {
			return nil, err
		}
	}
	return m, nil
}

func (m *model) outcome(ds []decl, q request, df defects) outcome {
	f, ok := m.root.lookup(q.URL, df.greedy)
	if !ok || f.node.val == nil {
		return outcome{Applied: []string{}}
	}
	i, ok := f.node.val.byMethod[q.Method]
	if !ok {
		return outcome{Applied: []string{}}
	}
	applied := ds[i].active()
	if len(applied) == 0 {
		return outcome{Applied: applied}
	}
	return outcome{Applied: applied, Policy: ds[i].URL, Norm: f.path, Params: f.params}
}

// ---- the real thing ----------------------------------------------------------------

func buildReal(ds []decl) (*config.EndpointPolicyTree, error) {
	eps := make([]sharedConfig.EndpointConfig, len(ds))
	for i, d := range ds {
		eps[i] = d.endpoint()
	}
	return config.BuildEndpointPolicyTree(eps)
}

// observe restates what getRemedies / getDiagnoses do with the tree.
func observe(tree *config.EndpointPolicyTree, q request) outcome {
	o := outcome{Applied: []string{}}
	res := tree.Lookup(q.URL + q.Trail)
	if res.Value == nil {
		return o
	}
	policy, found := (*res.Value)[urltree.Method(q.Method)]
	if !found {
		return o
	}
	for _, rem := range policy.Remedies {
		if rem.IsEnabled() {
			o.Applied = append(o.Applied, rem.GetName())
		}
	}
	for _, dg := range policy.Diagnosis {
		if dg.IsEnabled() {
			o.Applied = append(o.Applied, dg.GetName())
		}
	}
	sort.Strings(o.Applied)
	if len(o.Applied) > 0 {
		o.Norm, o.Params, o.Policy = res.NormalizedURL, res.PathParams, policy.URL
	}
	return o
}

// ---- checking one declaration set ----------------------------------------------------

type caseRepr struct {
	Declarations []decl  `json:"declarations_in_order"`
	Request      request `json:"request"`
	Observed     outcome `json:"observed"`
	Expected     outcome `json:"expected"`
	Note         string  `json:"note,omitempty"`
}

type infraError struct{ msg string }

func (e infraError) Error() string { return "VERIF-INFRA: " + e.msg }

func permute(ds []decl, perm []int) []decl {
	out := make([]decl, len(perm))
	for i, j := range perm {
		out[i] = ds[j]
	}
	return out
}

func allPerms(n int) [][]int {
	var out [][]int
	var rec func(cur []int, used []bool)
	rec = func(cur []int, used []bool) {
		if len(cur) == n {
			out = append(out, append([]int(nil), cur...))
			return
		}
		for i := 0; i < n; i++ {
			if !used[i] {
				used[i] = true
				rec(append(cur, i), used)
				used[i] = false
			}
		}
	}
	rec(nil, make([]bool, n))
	return out
}

// describe turns a deviation into the words of the statement.
func describe(ds []decl, q request, obs, want outcome) string {
	byName := map[string]decl{}
	for _, d := range ds {
		if d.Remedy != "" {
			byName[d.Remedy] = d
		}
		if d.Diag != "" {
			byName[d.Diag] = d
		}
	}
	u := splitParts(q.URL)
	for _, name := range obs.Applied {
		d, ok := byName[name]
		if !ok {
			return fmt.Sprintf("plugin %q was never declared", name)
		}
		if d.Method != q.Method {
			return fmt.Sprintf("%q declared for %s %s is applied to a %s request", name, d.Method, d.URL, q.Method)
		}
		if ok, _ := parsePat(d.URL).match(u, 0); !ok {
			return fmt.Sprintf("%q declared for %s %s is applied to %s %s, which does not match that pattern", name, d.Method, d.URL, q.Method, q.URL)
		}
	}
	if !reflect.DeepEqual(obs.Applied, want.Applied) {
		return fmt.Sprintf("applied %v, but the most specific declared pattern matching %s %s is %q with %v", obs.Applied, q.Method, q.URL, want.Policy, want.Applied)
	}
	return fmt.Sprintf("reported normalised URL %q params %v, want declared pattern %q params %v", obs.Norm, obs.Params, want.Norm, want.Params)
}

type verdict struct {
	attributed  map[string]int // finding id -> (order,request) pairs attributed
	orderDep    int            // requests whose outcome differs between orders
	extraParams int            // lookups reporting parameters of an abandoned branch besides the expected ones
	altReading  string
	rejected    bool
}

// checkSet drives every order × request. It returns a failing case (or nil).
func checkSet(r *ev.Recorder, ds []decl, orders [][]int, reqs []request) (*verdict, *caseRepr, error) {
	v := &verdict{attributed: map[string]int{}}
	type obsT struct {
		ds  []decl
		out []outcome
	}
	all := []obsT{}
	nErr := 0
	for _, perm := range orders {
		ods := permute(ds, perm)
		tree, err := buildReal(ods)
		_, merr := buildModel(ods, true, true)
		if (err != nil) != (merr != nil) {
			return v, &caseRepr{Declarations: ods, Note: fmt.Sprintf("build error %v, model of the build says %v", err, merr)}, nil
		}
		if err != nil {
			nErr++
			continue
		}
		o := obsT{ds: ods}
		for _, q := range reqs {
			o.out = append(o.out, observe(tree, q))
		}
		all = append(all, o)
	}
	if nErr > 0 {
		v.rejected = true
		if nErr != len(orders) {
			return v, &caseRepr{Declarations: ds, Note: fmt.Sprintf("the declaration set is rejected in %d of %d orders", nErr, len(orders))}, nil
		}
		return v, nil, nil
	}
	for qi := range reqs {
		for _, o := range all[1:] {
			if !identical(o.out[qi], all[0].out[qi]) {
				v.orderDep++
				break
			}
		}
	}
	// reading 0, with attribution to the listed findings
	var firstFail *caseRepr
	for _, o := range all {
		var models map[[2]bool]*model
		for qi, q := range reqs {
			want := specOutcome(ds, q, reading0)
			obs := o.out[qi]
			if agrees(obs, want, ds, q) {
				if extraParams(obs, want) {
					v.extraParams++
				}
				continue
			}
			if models == nil {
				models = map[[2]bool]*model{}
				for _, a := range []bool{false, true} {
					for _, g := range []bool{false, true} {
						m, err := buildModel(o.ds, a, g)
						if err != nil {
							return v, nil, infraError{fmt.Sprintf("model build failed where the real build succeeded: %v", err)}
						}
						models[[2]bool{a, g}] = m
					}
				}
				if got := models[[2]bool{false, false}].outcome(o.ds, q, defects{}); !identical(got, want) {
					return v, nil, infraError{fmt.Sprintf("defect-free model %+v disagrees with the specification %+v on %v / %v", got, want, o.ds, q)}
				}
			}
			explained := false
			var firstExpl *defects
			for _, df := range defectSubsets[1:] {
				m := models[[2]bool{df.alias, df.greedy}]
				if df.alias && !m.aliased {
					continue // structural predicate of the alias finding
				}
				if !agrees(obs, m.outcome(o.ds, q, df), ds, q) {
					continue
				}
				if firstExpl == nil {
					d := df
					firstExpl = &d
				}
				open := true
				for _, id := range df.ids() {
					open = open && r.IsOpen(id)
				}
				if !open {
					continue
				}
				for _, id := range df.ids() {
					ods, qq, ob, wa := o.ds, q, obs, want
					r.KnownFinding(id, func() any { return caseRepr{Declarations: ods, Request: qq, Observed: ob, Expected: wa} })
					v.attributed[id]++
				}
				explained = true
				break
			}
			if !explained && firstFail == nil {
				note := describe(o.ds, q, obs, want)
				if firstExpl != nil {
					note += fmt.Sprintf(" [behaviour reproduced by defect model %v, not listed as known]", firstExpl.ids())
				}
				firstFail = &caseRepr{Declarations: o.ds, Request: q, Observed: obs, Expected: want, Note: note}
			}
		}
	}
	if firstFail == nil {
		return v, nil, nil
	}
	// another reading of the statement that explains everything consistently?
	for _, rd := range altReadings {
		ok := true
		for _, o := range all {
			for qi, q := range reqs {
				if !agrees(o.out[qi], specOutcome(ds, q, rd), ds, q) {
					ok = false
				}
			}
		}
		if ok {
			v.altReading = rd.String()
			return v, nil, nil
		}
	}
	return v, firstFail, nil
}

func record(r *ev.Recorder, ds []decl, reqs []request, v *verdict) {
	if v.rejected {
		r.Class("set rejected in every order")
		return
	}
	methodsOf := map[string]map[string]bool{}
	for _, d := range ds {
		if methodsOf[d.URL] == nil {
			methodsOf[d.URL] = map[string]bool{}
		}
		methodsOf[d.URL][d.Method] = true
	}
	for _, q := range reqs {
		mp := matchingPatterns(ds, q)
		switch {
		case len(mp) == 0:
			r.Class("request matches 0 patterns")
		case len(mp) == 1:
			r.Class("request matches 1 pattern")
		default:
			r.Class("request matches >=2 patterns")
		}
		multi := false
		for _, p := range mp {
			multi = multi || len(methodsOf[p]) >= 2
		}
		if len(specOutcome(ds, q, reading0).Applied) > 0 {
			r.Class("request gets a policy")
		}
		if len(mp) >= 2 || multi {
			dsc, qc := ds, q
			r.NonTrivial(ev.JSON([]any{ds, q}), func() any { return map[string]any{"declarations": dsc, "request": qc, "matching": mp} })
		}
	}
	for id, n := range v.attributed {
		r.ClassN("lookups attributed to "+id, int64(n))
	}
	if v.orderDep > 0 {
		r.ClassN("requests with order-dependent outcome", int64(v.orderDep))
	}
	if v.extraParams > 0 {
		r.ClassN("lookups reporting extra parameters of an abandoned branch (accepted)", int64(v.extraParams))
	}
	if v.altReading != "" {
		r.Class("explained by reading " + v.altReading)
	}
}

func finish(t interface {
	Fatalf(string, ...any)
}, r *ev.Recorder, fail *caseRepr, err error) {
	if err != nil {
		t.Fatalf("%v", err)
	}
	if fail != nil {
		t.Fatalf("%s", r.Fail(fail, "%s", failMsg(fail)))
	}
}

func failMsg(c *caseRepr) string {
	if c.Request.URL == "" {
		return c.Note
	}
	return fmt.Sprintf("%s %s with declarations %s: %s", c.Request.Method, c.Request.URL, declList(c.Declarations), c.Note)
}

func declList(ds []decl) string {
	s := []string{}
	for _, d := range ds {
		s = append(s, fmt.Sprintf("%s %s{%s}", d.Method, d.URL, strings.Join(d.active(), ",")))
	}
	return "[" + strings.Join(s, "; ") + "]"
}

// ---- generators -----------------------------------------------------------------------

var (
	genHosts   = []string{"h.com", "h.com", "h.com", "h.com", "api.h.com"}
	genSegs    = []string{"keep", "keep", "keep", "keep", "{}", "{}", "{}", "other"}
	// methods are compared as written (a policy declared for GET is not one for get): other spellings are other methods
	genMethods = []string{"GET", "GET", "POST", "PUT", "get", "Post"}
	reqMethods = []string{"GET", "GET", "POST", "PUT", "DELETE", "get", "get", "Post", "post"}
	genValues  = []string{"a", "b", "c", "1", "zz"}
)

// genPool draws 1-4 patterns that are variants of one base path, so that they overlap:
// each segment of the base is kept, generalised to a parameter, or replaced by another
// literal; the variant is cut at a random depth and may end in a wildcard.
func genPool() *rapid.Generator[[]string] {
	return rapid.Custom(func(t *rapid.T) []string {
		base := rapid.SliceOfN(rapid.SampledFrom([]string{"a", "b", "c"}), 1, 3).Draw(t, "base")
		k := rapid.SampledFrom([]int{1, 2, 3, 3, 4, 4}).Draw(t, "k")
		pool := []string{}
		// the names of the path parameters: any text between the braces is a name (TryExtractPathParameter)
		fam := rapid.SampledFrom([]string{"p", "p", "p", "p", "user_id", "order-id", "идентификатор", "año", "用户", "P"}).Draw(t, "names")
		for j := 0; j < k; j++ {
			url := rapid.SampledFrom(genHosts).Draw(t, "host")
			n := rapid.IntRange(0, len(base)).Draw(t, "depth")
			for i := 0; i < n; i++ {
				s := base[i]
				switch rapid.SampledFrom(genSegs).Draw(t, "seg") {
				case "{}":
					name := fmt.Sprintf("%s%d", fam, i+1)
					// now and then another name at a position an earlier pattern may have named already: such a set
					// of declarations is refused (the model says so as well) - an entirely different name, or the
					// same name in another letter case ({p1} / {P1}: names are compared as written)
					switch rapid.IntRange(0, 39).Draw(t, "clash") {
					case 0:
						name = "q"
					case 1:
						if up := strings.ToUpper(name); up != name {
							name = up
						} else {
							name = strings.ToLower(name)
						}
					}
					s = "{" + name + "}"
				case "other":
					s = rapid.SampledFrom([]string{"a", "b", "c"}).Draw(t, "other")
				}
				url += "/" + s
			}
			if rapid.IntRange(0, 4).Draw(t, "wild") < 2 {
				url += "/*"
			}
			pool = append(pool, url)
		}
		return pool
	})
}

func genDecls() *rapid.Generator[[]decl] {
	return rapid.Custom(func(t *rapid.T) []decl {
		pool := genPool().Draw(t, "pool")
		n := rapid.SampledFrom([]int{1, 2, 3, 3, 4, 4, 5, 6}).Draw(t, "n")
		seen := map[string]bool{}
		ds := []decl{}
		for i := 0; i < n; i++ {
			d := decl{Method: rapid.SampledFrom(genMethods).Draw(t, "method"), URL: rapid.SampledFrom(pool).Draw(t, "url")}
			if seen[d.Method+" "+d.URL] {
				continue
			}
			seen[d.Method+" "+d.URL] = true
			k := len(ds)
			d.Kind = k
			switch rapid.IntRange(0, 9).Draw(t, "plugins") {
			case 0:
				d.Diag = fmt.Sprintf("D%d", k)
			case 1, 2:
				d.Remedy, d.Diag = fmt.Sprintf("R%d", k), fmt.Sprintf("D%d", k)
			case 3:
				d.Remedy, d.Disabled, d.Diag = fmt.Sprintf("R%d", k), true, fmt.Sprintf("D%d", k)
			default:
				d.Remedy = fmt.Sprintf("R%d", k)
			}
			ds = append(ds, d)
		}
		return ds
	})
}

func genRequest(ds []decl) *rapid.Generator[request] {
	return rapid.Custom(func(t *rapid.T) request {
		p := parsePat(rapid.SampledFrom(ds).Draw(t, "from").URL)
		host, path := []string{}, []string{}
		for _, pp := range p.fixed {
			v := pp.v
			if _, ok := paramName(v); ok {
				v = rapid.SampledFrom(genValues).Draw(t, "value")
			}
			if pp.host {
				host = append(host, v)
			} else {
				path = append(path, v)
			}
		}
		if p.wild {
			path = append(path, rapid.SliceOfN(rapid.SampledFrom(genValues), 0, 2).Draw(t, "tail")...)
		}
		switch rapid.IntRange(0, 9).Draw(t, "mutation") {
		case 0: // extra trailing segment
			path = append(path, rapid.SampledFrom(genValues).Draw(t, "extra"))
		case 1: // missing last segment
			if len(path) > 0 {
				path = path[:len(path)-1]
			}
		case 2: // other literal somewhere
			if len(path) > 0 {
				path[rapid.IntRange(0, len(path)-1).Draw(t, "at")] = rapid.SampledFrom(genValues).Draw(t, "other")
			}
		case 3: // host only
			path = nil
		case 4: // other host
			// (the last two: a declared host in another letter case - the tree compares host labels as written)
			host = strings.Split(rapid.SampledFrom([]string{"h.com", "api.h.com", "x.org", "H.com", "API.h.com"}).Draw(t, "otherhost"), ".")
		case 5: // another host whose name extends the declared one by a label (the first path segment moved into the host)
			if len(path) > 0 && !strings.ContainsAny(path[0], "{}*") {
				host, path = append(host, path[0]), path[1:]
			} else {
				host = append(host, "zz")
			}
		}
		// one request in twelve carries an absolute URL inside its path (a redirect / proxy target:
		// shop.com/out/https://partner.io/orders/77), built from another declaration of the set
		if rapid.IntRange(0, 11).Draw(t, "embedded-url") == 0 {
			o := parsePat(rapid.SampledFrom(ds).Draw(t, "embedded-from").URL)
			oh, op := []string{}, []string{}
			for _, pp := range o.fixed {
				v := pp.v
				if _, ok := paramName(v); ok {
					v = rapid.SampledFrom(genValues).Draw(t, "embedded-value")
				}
				if pp.host {
					oh = append(oh, v)
				} else {
					op = append(op, v)
				}
			}
			path = append(path, rapid.SampledFrom([]string{"https:", "http:"}).Draw(t, "scheme"), "", strings.Join(oh, "."))
			path = append(path, op...)
		}
		q := request{Method: rapid.SampledFrom(reqMethods).Draw(t, "method"), URL: strings.Join(append([]string{strings.Join(host, ".")}, path...), "/")}
		if rapid.IntRange(0, 7).Draw(t, "trail") == 0 {
			q.Trail = rapid.SampledFrom([]string{"/", "/", ".", "//"}).Draw(t, "separators")
		}
		return q
	})
}

// ---- tests -----------------------------------------------------------------------------

func TestPolicyTreeRandom(t *testing.T) {
	r := ev.New(t, "C13")
	rapid.Check(t, func(t *rapid.T) {
		ds := genDecls().Draw(t, "declarations")
		reqs := rapid.SliceOfN(genRequest(ds), 8, 8).Draw(t, "requests")
		var orders [][]int
		if len(ds) <= 4 {
			orders = allPerms(len(ds))
		} else {
			id := make([]int, len(ds))
			rev := make([]int, len(ds))
			for i := range id {
				id[i], rev[i] = i, len(ds)-1-i
			}
			orders = append(orders, id, rev)
			orders = append(orders, rapid.SliceOfN(rapid.Permutation(id), 6, 6).Draw(t, "orders")...)
		}
		// the log level the gateway runs at (LOG_LEVEL; output discarded): it must not change any answer
		level := rapid.SampledFrom(logLevels).Draw(t, "log level")
		r.CaseN(int64(len(reqs))) // one evaluation per (declaration set, request)
		r.Class(fmt.Sprintf("declarations=%d", len(ds)))
		r.Class("log level " + level)
		var v *verdict
		var fail *caseRepr
		var err error
		withLogLevel(level, func() { v, fail, err = checkSet(r, ds, orders, reqs) })
		if fail != nil {
			fail.Note = strings.TrimSpace(fail.Note + " (gateway log level: " + level + ")")
		}
		finish(t, r, fail, err)
		record(r, ds, reqs, v)
	})
}

var logLevels = []string{"off", "off", "error", "info", "debug", "debug", "trace"}

// withLogLevel runs f with the process-wide zerolog level of a gateway started with LOG_LEVEL=level; what is
// logged is thrown away.
func withLogLevel(level string, f func()) {
	lv, err := zerolog.ParseLevel(level)
	if level == "off" || err != nil {
		f()
		return
	}
	prev := zlog.Logger
	zlog.Logger = zerolog.New(io.Discard)
	zerolog.SetGlobalLevel(lv)
	defer func() {
		zerolog.SetGlobalLevel(zerolog.Disabled)
		zlog.Logger = prev
	}()
	f()
}

// Bounded-exhaustive: every set of 1..3 declarations over six overlapping patterns and
// two methods, in every order, against every request of a fixed battery.
func TestPolicyTreeSmallScope(t *testing.T) {
	r := ev.New(t, "C13")
	r.SetExhaustive(true)
	patterns := []string{"h.com/a", "h.com/{p1}", "h.com/*", "h.com/a/b", "h.com/{p1}/b", "h.com/a/*"}
	universe := []decl{}
	for _, p := range patterns {
		for _, m := range []string{"GET", "POST"} {
			universe = append(universe, decl{Method: m, URL: p})
		}
	}
	reqs := []request{}
	for _, u := range []string{"h.com", "h.com/a", "h.com/b", "h.com/a/b", "h.com/b/b", "h.com/a/c", "h.com/b/c", "h.com/a/b/c"} {
		for _, m := range []string{"GET", "POST"} {
			reqs = append(reqs, request{Method: m, URL: u})
		}
	}
	var rec func(start int, cur []decl)
	rec = func(start int, cur []decl) {
		if len(cur) > 0 {
			ds := make([]decl, len(cur))
			for i, d := range cur {
				d.Kind, d.Remedy = i, fmt.Sprintf("R%d", i)
				ds[i] = d
			}
			r.CaseN(int64(len(reqs))) // one evaluation per (declaration set, request)
			r.Class(fmt.Sprintf("declarations=%d", len(ds)))
			v, fail, err := checkSet(r, ds, allPerms(len(ds)), reqs)
			finish(t, r, fail, err)
			record(r, ds, reqs, v)
		}
		if len(cur) == 3 {
			return
		}
		for i := start; i < len(universe); i++ {
			rec(i+1, append(append([]decl(nil), cur...), universe[i]))
		}
	}
	rec(0, nil)
}

// ---- dispatcher cross-check: the restated selection equals runner.DispatchOnRequest -----

func TestDispatchAgreesWithSelection(t *testing.T) {
	r := ev.New(t, "C13")
	svc := &services.PoliciesServices{Remedies: services.RemedyPlugins{FixedResponsePlugin: remedies.NewFixedResponsePlugin(clock.NewRealClock())}}
	rapid.Check(t, func(t *rapid.T) {
		ds := genDecls().Draw(t, "declarations")
		reqs := rapid.SliceOfN(genRequest(ds), 6, 6).Draw(t, "requests")
		r.CaseN(int64(len(reqs)))
		// every declaration carries one fixed_response remedy whose status code is the marker
		eps := make([]sharedConfig.EndpointConfig, len(ds))
		for i := range ds {
			ds[i].Diag, ds[i].Remedy = "", fmt.Sprintf("R%d", i)
			eps[i] = sharedConfig.EndpointConfig{URL: ds[i].URL, Method: ds[i].Method, Diagnosis: []sharedConfig.Diagnosis{},
				Remedies: []sharedConfig.Remedy{{Enabled: !ds[i].Disabled, Name: ds[i].Remedy,
					Config: sharedConfig.RemedyConfig{FixedResponse: &sharedConfig.FixedResponseConfig{StatusCode: 201 + i}}}}}
		}
		tree, err := config.BuildEndpointPolicyTree(eps)
		if err != nil {
			r.Class("rejected (same remedy type on overlapping endpoints)")
			return
		}
		r.Class("accepted")
		pc := &sharedConfig.PoliciesConfig{Endpoints: eps}
		for _, q := range reqs {
			sel := observe(tree, q)
			wantStatus := 0
			if len(sel.Applied) == 1 {
				fmt.Sscanf(sel.Applied[0], "R%d", &wantStatus)
				wantStatus += 201
			}
			acts, err := runner.DispatchOnRequest(lunarMessages.OnRequest{ID: "t", SequenceID: "t", Method: q.Method, Scheme: "https", URL: q.URL + q.Trail,
				Headers: map[string]string{"early-response": "true"}}, tree, pc, svc, nil)
			if err != nil {
				t.Fatalf("%s", r.Fail(map[string]any{"declarations": ds, "request": q}, "DispatchOnRequest: %v", err))
			}
			got := 0
			for _, a := range acts {
				if a.Name == "status_code" {
					got, _ = a.Value.(int)
				}
			}
			if wantStatus != 0 {
				r.Class("request gets a policy")
				if len(matchingPatterns(ds, q)) >= 2 {
					dsc, qc := ds, q
					r.NonTrivial(ev.JSON([]any{"dispatch", ds, q}), func() any { return map[string]any{"declarations": dsc, "request": qc} })
				}
			}
			if got != wantStatus {
				t.Fatalf("%s", r.Fail(map[string]any{"declarations": ds, "request": q, "selection": sel},
					"dispatcher answered with marker status %d, the tree/method selection gives %d (%v)", got, wantStatus, sel.Applied))
			}
		}
	})
}

// ---- witnesses of the listed findings ----------------------------------------------------

func witness(t *testing.T, id string, ds []decl, q request, present func(outcome) bool, what string) {
	r := ev.New(t, "C13")
	r.Case()
	tree, err := buildReal(ds)
	if err != nil {
		t.Fatalf("%s", r.Fail(caseRepr{Declarations: ds}, "witness set rejected: %v", err))
	}
	obs := observe(tree, q)
	c := caseRepr{Declarations: ds, Request: q, Observed: obs, Expected: specOutcome(ds, q, reading0), Note: what}
	r.NonTrivial(ev.JSON(c), func() any { return c })
	if !present(obs) {
		r.Class("defect absent")
		return
	}
	r.Class("defect present")
	if !r.KnownFinding(id, func() any { return c }) {
		t.Fatalf("%s", r.Fail(c, "%s", what))
	}
}

func TestWitnessAliasedPolicyMap(t *testing.T) {
	ds := []decl{{Method: "GET", URL: "h.com/*", Remedy: "R0", Kind: 0}, {Method: "GET", URL: "h.com/a", Remedy: "R1", Kind: 1}}
	witness(t, findingAlias, ds, request{Method: "GET", URL: "h.com/b"},
		func(o outcome) bool { return !reflect.DeepEqual(o.Applied, []string{"R0"}) },
		"declaring GET h.com/* then GET h.com/a: GET h.com/b gets the remedy declared for h.com/a (and h.com/*'s own remedy is lost); in the opposite order it does not")
}

func TestWitnessGreedyDescent(t *testing.T) {
	ds := []decl{{Method: "GET", URL: "h.com/a/b", Remedy: "R0", Kind: 0}, {Method: "GET", URL: "h.com/{p1}/c", Remedy: "R1", Kind: 1}}
	witness(t, findingGreedy, ds, request{Method: "GET", URL: "h.com/a/c"},
		func(o outcome) bool { return !reflect.DeepEqual(o.Applied, []string{"R1"}) },
		"GET h.com/a/c matches the declared pattern h.com/{p1}/c but gets no policy: the lookup commits to the literal child 'a' and never back-tracks")
}
