package c13

// Unit TestDiagnosisFreeRevert: the same declarations through the policies accessor, which also builds the
// "diagnosis-free" copy of the loaded policies that the diagnosis fail-safe (and the admin route) switches to.
// In that mode the diagnoses are gone, but the declared patterns are the same: a request still belongs to its
// most specific declared pattern and gets that pattern's remedies - never the remedy of a less specific one
// because its own endpoint declares diagnoses only. After RevertToLastLoaded everything is as loaded.

import (
	"fmt"
	"io"
	"net/http"
	"os"
	"path/filepath"
	"strings"
	"sync"
	"testing"
	"time"

	"lunar/engine/config"
	sharedConfig "lunar/shared-model/config"

	"pgregory.net/rapid"

	"verif/harness/internal/engine"
	"verif/harness/internal/ev"
	"verif/harness/internal/vclock"
)

type okProxy struct{}

func (okProxy) RoundTrip(req *http.Request) (*http.Response, error) {
	if req.Body != nil {
		_, _ = io.Copy(io.Discard, req.Body)
		req.Body.Close()
	}
	return &http.Response{StatusCode: 200, Status: "200 OK", Body: io.NopCloser(strings.NewReader("ok")), Header: http.Header{}, Request: req}, nil
}

var (
	revertOnce sync.Once
	revertErr  error
	revertDir  string
)

func TestDiagnosisFreeRevert(t *testing.T) {
	r := ev.New(t, "C13")
	revertOnce.Do(func() {
		engine.Setup()
		revertDir = os.Getenv("VERIF_SCRATCH")
		if revertDir == "" {
			revertDir = t.TempDir()
		}
		os.Setenv("LUNAR_PROXY_POLICIES_CONFIG", filepath.Join(revertDir, "policies.yaml"))
		os.Setenv("LUNAR_PROXY_CONFIG_DIR", revertDir)
		http.DefaultTransport = okProxy{}
		sharedConfig.Validate.RegisterStructValidation(config.ValidateStructLevel, sharedConfig.Remedy{}, sharedConfig.Diagnosis{}, sharedConfig.PoliciesConfig{})
		revertErr = sharedConfig.Validate.RegisterValidation("validateInt", config.ValidateInt)
	})
	if revertErr != nil {
		fmt.Println("VERIF-INFRA:", revertErr)
		t.Fatalf("%v", revertErr)
	}
	rapid.Check(t, func(t *rapid.T) {
		ds := genDecls().Draw(t, "declarations")
		// every remedy is a fixed_response (always loadable from a file); a third of the declarations carry a
		// diagnosis only, a third both
		for i := range ds {
			ds[i].Kind, ds[i].Disabled = 6, false
			ds[i].Remedy, ds[i].Diag = fmt.Sprintf("R%d", i), ""
			switch rapid.IntRange(0, 2).Draw(t, "plugins") {
			case 0:
				ds[i].Remedy, ds[i].Diag = "", fmt.Sprintf("D%d", i)
			case 1:
				ds[i].Diag = fmt.Sprintf("D%d", i)
			}
		}
		reqs := rapid.SliceOfN(genRequest(ds), 6, 6).Draw(t, "requests")
		r.CaseN(int64(len(reqs)))
		pc := &sharedConfig.PoliciesConfig{Exporters: sharedConfig.Exporters{File: &sharedConfig.FileExporterConfig{FileDir: revertDir, FileName: "out.log"}}}
		pc.Global.Remedies, pc.Global.Diagnosis = []sharedConfig.Remedy{}, []sharedConfig.Diagnosis{}
		for _, d := range ds {
			pc.Endpoints = append(pc.Endpoints, d.endpoint())
		}
		if err := config.WritePoliciesConfig(filepath.Join(revertDir, "policies.yaml"), pc); err != nil {
			fmt.Println("VERIF-INFRA: cannot write policies:", err)
			t.Fatalf("%v", err)
		}
		clk := vclock.New(time.Unix(1_700_000_000, 0))
		engine.SetClock(clk)
		defer clk.Advance(1000 * time.Hour) // lets the deferred un-registration sleepers of this case run out
		res, err := config.BuildInitialFromFile()
		if err != nil {
			r.Class("declarations rejected by the loader")
			return
		}
		acc := res.Accessor
		r.Class("loaded")
		stripped := make([]decl, len(ds))
		for i, d := range ds {
			stripped[i] = d
			stripped[i].Diag = ""
		}
		// oracle: in every mode the accessor's tree answers exactly like a tree built from the declared patterns
		// with that mode's plugins (differential, so the listed look-up findings of C13 cancel out)
		judge := func(mode string, model []decl) {
			tree := &acc.GetCurrentPoliciesData().EndpointPolicyTree
			ref, err := buildReal(model)
			if err != nil {
				return
			}
			for _, q := range reqs {
				obs, want := observe(tree, q), observe(ref, q)
				if identical(obs, want) {
					continue
				}
				c := caseRepr{Declarations: ds, Request: q, Observed: obs, Expected: want, Note: mode}
				t.Fatalf("%s", r.Fail(c, "%s: %s %s gets %v (normalised %q), the declared patterns give %v (normalised %q)", mode, q.Method, q.URL+q.Trail, obs.Applied, obs.Norm, want.Applied, want.Norm))
			}
		}
		judge("as loaded", ds)
		if err := acc.RevertToDiagnosisFree(); err != nil {
			r.Class("revert refused")
			return
		}
		diagOnly := false
		for _, d := range ds {
			diagOnly = diagOnly || (d.Remedy == "" && d.Diag != "")
		}
		if diagOnly && len(distinctPatterns(ds)) > 1 {
			r.NonTrivial(ev.JSON([]any{"revert", ds, reqs}), func() any { return map[string]any{"declarations": ds, "requests": reqs} })
		}
		judge("diagnosis-free mode", stripped)
		if err := acc.RevertToLastLoaded(); err != nil {
			r.Class("revert to last loaded refused")
			return
		}
		judge("back to last loaded", ds)
	})
}
