package c13

// Unit TestDispatchedDiagnosisScope: the other units look the declarations up in the tree; the plugins, however,
// are told their scope (method, normalised URL) by the dispatcher, which builds it from that look-up. Here the
// declarations carry a metrics-collector diagnosis, every request is handed to runner.RunTask (the exported entry
// of the diagnosis path: getDiagnoses + the plugins + the exporters) and the exported records are read back: one
// record per enabled diagnosis of the endpoint the tree selects, each reporting the request's method and, as
// normalised URL, exactly the pattern the tree's own look-up reports (differential: whether that look-up is right
// is judged by the other units).

import (
	"encoding/json"
	"fmt"
	"strings"
	"sync"
	"testing"
	"time"

	"lunar/engine/config"
	lunarMessages "lunar/engine/messages"
	"lunar/engine/runner"
	"lunar/engine/services"
	sharedConfig "lunar/shared-model/config"
	"lunar/toolkit-core/urltree"

	"pgregory.net/rapid"

	"verif/harness/internal/ev"
)

type recSink struct {
	mu   sync.Mutex
	recs []string
}

func (w *recSink) Write(b []byte) (int, error) {
	w.mu.Lock()
	w.recs = append(w.recs, string(b))
	w.mu.Unlock()
	return len(b), nil
}
func (w *recSink) Close() error { return nil }
func (w *recSink) take() []string {
	w.mu.Lock()
	defer w.mu.Unlock()
	out := w.recs
	w.recs = nil
	return out
}

var (
	dispOnce sync.Once
	dispSvc  *services.PoliciesServices
	dispSink = &recSink{}
	dispErr  error
)

func TestDispatchedDiagnosisScope(t *testing.T) {
	r := ev.New(t, "C13")
	dispOnce.Do(func() { dispSvc, dispErr = services.Initialize(dispSink, 15*time.Second, sharedConfig.Exporters{}) })
	if dispErr != nil {
		fmt.Println("VERIF-INFRA: cannot initialise the policy services:", dispErr)
		t.Fatalf("%v", dispErr)
	}
	rapid.Check(t, func(t *rapid.T) {
		ds := genDecls().Draw(t, "declarations")
		eps := []sharedConfig.EndpointConfig{}
		for i := range ds {
			ds[i].Remedy, ds[i].Disabled = "", false
			ds[i].Diag = fmt.Sprintf("D%d", i)
			e := sharedConfig.EndpointConfig{URL: ds[i].URL, Method: ds[i].Method, Remedies: []sharedConfig.Remedy{}, Diagnosis: []sharedConfig.Diagnosis{{
				Enabled: true, Name: ds[i].Diag, Export: "file", Config: sharedConfig.DiagnosisConfig{MetricsCollector: &sharedConfig.MetricsCollectorConfig{}}}}}
			eps = append(eps, e)
		}
		reqs := rapid.SliceOfN(genRequest(ds), 6, 6).Draw(t, "requests")
		tree, err := config.BuildEndpointPolicyTree(eps)
		if err != nil {
			r.Class("declarations rejected by the tree")
			return
		}
		now := time.Now()
		for qi, q := range reqs {
			r.Case()
			url := q.URL + q.Trail
			lr := tree.Lookup(url)
			want := 0
			if lr.Value != nil {
				if p, ok := (*lr.Value)[urltree.Method(q.Method)]; ok {
					for _, dg := range p.Diagnosis {
						if dg.IsEnabled() {
							want++
						}
					}
				}
			}
			id := fmt.Sprintf("t%d", qi)
			dispSink.take()
			runner.RunTask(runner.DiagnosisTask{
				Request:  lunarMessages.OnRequest{ID: id, SequenceID: id, Method: q.Method, Scheme: "https", URL: url, Headers: map[string]string{}, Time: now},
				Response: lunarMessages.OnResponse{ID: id, SequenceID: id, Method: q.Method, URL: url, Status: 200, Headers: map[string]string{}, Time: now.Add(time.Millisecond)},
			}, tree, nil, &dispSvc.Diagnosis, &dispSvc.Exporters)
			recs := dispSink.take()
			c := map[string]any{"declarations": ds, "request": q, "records": recs}
			if len(recs) != want {
				t.Fatalf("%s", r.Fail(c, "%s %s: %d diagnosis records were exported, the endpoint the tree selects (%q) declares %d enabled diagnoses for that method", q.Method, url, len(recs), lr.NormalizedURL, want))
			}
			if want > 0 && lr.NormalizedURL != url {
				r.NonTrivial(ev.JSON([]any{"dispatch", ds, q}), func() any { return c })
			}
			for _, rec := range recs {
				var m struct {
					Method string `json:"method"`
					Norm   string `json:"normalized_url"`
				}
				if err := json.Unmarshal([]byte(strings.TrimPrefix(rec, "file ")), &m); err != nil {
					fmt.Println("VERIF-INFRA: cannot parse an exported record:", rec)
					t.Fatalf("infrastructure")
				}
				if m.Norm != lr.NormalizedURL || m.Method != q.Method {
					t.Fatalf("%s", r.Fail(c, "%s %s: the diagnosis was told the scope %s %q, the tree's look-up reports the declared pattern %q", q.Method, url, m.Method, m.Norm, lr.NormalizedURL))
				}
			}
		}
	})
}
