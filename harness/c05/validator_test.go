package c05

// Unit TestValidatorService: the standalone flows validator as it runs - the service binary built from the repository's
// flows-validator package (package main; built with a generated module file, its own go.mod does not resolve the
// engine offline), started on a port of its own, asked over HTTP. Generated are SEQUENCES of validation requests for
// one set-up id (or none): sets of flow and quota files that are fine, sets whose flow needs a quota that is not
// there, sets with a file that is not Base64 (the service answers 500 while it writes them), sets with an invalid
// quota. Two things are judged, neither with a model of the validator:
//   - the answer to a request is a function of the submitted set: the same set sent under an id that was never used
//     gets the same answer (status and verdict) - whatever was validated under the id before, and however that ended;
//   - "accepts" means "the gateway loads it": a set the service accepts is loaded by the engine's own loader.

import (
	"bytes"
	"encoding/base64"
	"encoding/json"
	"fmt"
	"io"
	"net"
	"net/http"
	"os"
	"os/exec"
	"path/filepath"
	"strings"
	"sync"
	"testing"
	"time"

	"pgregory.net/rapid"

	"verif/harness/internal/engine"
	"verif/harness/internal/ev"
)

var (
	fvOnce sync.Once
	fvErr  error
	fvURL  string
	fvCmd  *exec.Cmd
)

func fvSetup() {
	fvOnce.Do(func() {
		repo := engine.Repo()
		eng := filepath.Join(repo, "proxy/src/services/lunar-engine")
		mod, err := os.ReadFile(filepath.Join(eng, "go.mod"))
		if err != nil {
			fvErr = err
			return
		}
		sum, _ := os.ReadFile(filepath.Join(eng, "go.sum"))
		dir, err := os.MkdirTemp(scratch, "fv-")
		if err != nil {
			fvErr = err
			return
		}
		lines := strings.Split(string(mod), "\n")
		for i, l := range lines {
			if strings.HasPrefix(l, "module ") {
				lines[i] = "module lunar/flows-validator"
			}
		}
		gomod := strings.Join(lines, "\n") + "\nrequire lunar/engine v0.0.0\n\nreplace lunar/engine v0.0.0 => ../lunar-engine\n"
		os.WriteFile(filepath.Join(dir, "fv.go.mod"), []byte(gomod), 0o644)
		os.WriteFile(filepath.Join(dir, "fv.go.sum"), sum, 0o644)
		bin := filepath.Join(dir, "fv")
		build := exec.Command("go", "build", "-modfile="+filepath.Join(dir, "fv.go.mod"), "-o", bin, ".")
		build.Dir = filepath.Join(repo, "proxy/src/services/flows-validator")
		build.Env = append(os.Environ(), "GOFLAGS=-mod=mod", "GOPROXY=off", "GOSUMDB=off")
		if out, err := build.CombinedOutput(); err != nil {
			fvErr = fmt.Errorf("cannot build the flows validator: %v: %s", err, out)
			return
		}
		ln, err := net.Listen("tcp", "127.0.0.1:0")
		if err != nil {
			fvErr = err
			return
		}
		port := ln.Addr().(*net.TCPAddr).Port
		ln.Close()
		run := filepath.Join(dir, "run")
		os.MkdirAll(run, 0o755)
		fvCmd = exec.Command(bin)
		fvCmd.Dir = run
		fvCmd.Env = append(os.Environ(), fmt.Sprintf("LUNAR_VALIDATOR_PORT=%d", port))
		fvCmd.Stdout, fvCmd.Stderr = io.Discard, io.Discard
		if err := fvCmd.Start(); err != nil {
			fvErr = err
			return
		}
		fvURL = fmt.Sprintf("http://127.0.0.1:%d/validate-flows", port)
		deadline := time.Now().Add(20 * time.Second)
		for time.Now().Before(deadline) {
			if c, err := net.DialTimeout("tcp", fmt.Sprintf("127.0.0.1:%d", port), 200*time.Millisecond); err == nil {
				c.Close()
				return
			}
			time.Sleep(50 * time.Millisecond)
		}
		fvErr = fmt.Errorf("the flows validator did not start listening on port %d", port)
	})
}

const fvQuota = `quotas:
  - id: FvQuota
    filter:
      url: "v.com/*"
    strategy:
      fixed_window:
        max: 10
        interval: 1
        interval_unit: minute
`

func fvFlow(name string, limiter bool) string {
	if !limiter {
		return "name: " + name + "\nfilter:\n  url: \"v.com/" + name + "\"\nprocessors:\n  F:\n    processor: Filter\n    parameters:\n      - key: header\n        value: \"x-a=1\"\nflow:\n  request:\n" +
			"    - from:\n        stream:\n          name: globalStream\n          at: start\n      to:\n        processor:\n          name: F\n" +
			"    - from:\n        processor:\n          name: F\n          condition: hit\n      to:\n        stream:\n          name: globalStream\n          at: end\n" +
			"    - from:\n        processor:\n          name: F\n          condition: miss\n      to:\n        stream:\n          name: globalStream\n          at: end\n" +
			"  response:\n    - from:\n        stream:\n          name: globalStream\n          at: start\n      to:\n        stream:\n          name: globalStream\n          at: end\n"
	}
	return "name: " + name + "\nfilter:\n  url: \"v.com/" + name + "\"\nprocessors:\n  L:\n    processor: Limiter\n    parameters:\n      - key: quota_id\n        value: FvQuota\n  G:\n    processor: GenerateResponse\n    parameters:\n      - key: status\n        value: 429\n      - key: body\n        value: no\nflow:\n  request:\n" +
		"    - from:\n        stream:\n          name: globalStream\n          at: start\n      to:\n        processor:\n          name: L\n" +
		"    - from:\n        processor:\n          name: L\n          condition: below_limit\n      to:\n        stream:\n          name: globalStream\n          at: end\n" +
		"    - from:\n        processor:\n          name: L\n          condition: above_limit\n      to:\n        processor:\n          name: G\n" +
		"  response:\n    - from:\n        processor:\n          name: G\n      to:\n        stream:\n          name: globalStream\n          at: end\n" +
		"    - from:\n        stream:\n          name: globalStream\n          at: start\n      to:\n        stream:\n          name: globalStream\n          at: end\n"
}

// one validation request: which files it carries
type fvReq struct {
	Flows  []string `json:"flows"`  // plain | limiter
	Quotas []string `json:"quotas"` // ok | not-base64 | invalid
}

type fvCase struct {
	ID   string  `json:"setup_id"`
	Reqs []fvReq `json:"requests"`
}

type fvAnswer struct {
	Status  int
	Success bool
	Message string
}

func (a fvAnswer) String() string { return fmt.Sprintf("HTTP %d success=%v", a.Status, a.Success) }

func fvBody(id string, q fvReq) ([]byte, map[string]string, map[string]string, bool) {
	in := map[string]any{}
	if id != "" {
		in["id"] = id
	}
	flows, quotas := map[string]string{}, map[string]string{}
	loadable := true
	fl := []string{}
	for i, f := range q.Flows {
		text := fvFlow(fmt.Sprintf("f%d", i), f == "limiter")
		flows[fmt.Sprintf("flow_%d.yaml", i+1)] = text
		fl = append(fl, base64.StdEncoding.EncodeToString([]byte(text)))
	}
	ql := []string{}
	for i, k := range q.Quotas {
		switch k {
		case "ok":
			quotas[fmt.Sprintf("quota_%d.yaml", i+1)] = fvQuota
			ql = append(ql, base64.StdEncoding.EncodeToString([]byte(fvQuota)))
		case "invalid":
			text := "quotas:\n  - id: Broken\n    strategy:\n      fixed_window:\n        max: -3\n"
			quotas[fmt.Sprintf("quota_%d.yaml", i+1)] = text
			ql = append(ql, base64.StdEncoding.EncodeToString([]byte(text)))
		default:
			ql = append(ql, "%%% this is not Base64 %%%")
			loadable = false
		}
	}
	in["flows"], in["quotas"] = fl, ql
	b, _ := json.Marshal(in)
	return b, flows, quotas, loadable
}

func fvAsk(body []byte) (fvAnswer, error) {
	resp, err := http.Post(fvURL, "application/json", bytes.NewReader(body))
	if err != nil {
		return fvAnswer{}, err
	}
	defer resp.Body.Close()
	raw, _ := io.ReadAll(resp.Body)
	a := fvAnswer{Status: resp.StatusCode}
	if resp.StatusCode == 200 {
		var r struct {
			Success bool   `json:"success"`
			Message string `json:"message"`
		}
		if err := json.Unmarshal(raw, &r); err != nil {
			return a, fmt.Errorf("the validator's 200 answer is not JSON: %q", raw)
		}
		a.Success, a.Message = r.Success, r.Message
	} else {
		a.Message = strings.TrimSpace(string(raw))
	}
	return a, nil
}

var fvFresh int

func TestValidatorService(t *testing.T) {
	fvSetup()
	if fvErr != nil {
		fmt.Println("VERIF-INFRA:", fvErr)
		t.Fatalf("%v", fvErr)
	}
	defer func() {
		if fvCmd != nil && fvCmd.Process != nil {
			fvCmd.Process.Kill()
		}
	}()
	r := ev.New(t, "C05")
	genReq := rapid.Custom(func(t *rapid.T) fvReq {
		return fvReq{
			Flows:  rapid.SliceOfN(rapid.SampledFrom([]string{"plain", "limiter", "limiter"}), 1, 2).Draw(t, "flows"),
			Quotas: rapid.SliceOfN(rapid.SampledFrom([]string{"ok", "ok", "not-base64", "invalid"}), 0, 2).Draw(t, "quotas"),
		}
	})
	rapid.Check(t, func(t *rapid.T) {
		c := fvCase{ID: rapid.SampledFrom([]string{"", "s1", "s1", "s2"}).Draw(t, "id"), Reqs: rapid.SliceOfN(genReq, 2, 4).Draw(t, "requests")}
		r.Case()
		failedBefore := false
		for i, q := range c.Reqs {
			body, flows, quotas, wellFormed := fvBody(c.ID, q)
			got, err := fvAsk(body)
			if err != nil {
				fmt.Println("VERIF-INFRA: the validator does not answer:", err)
				t.Fatalf("infrastructure")
			}
			fvFresh++
			freshBody, _, _, _ := fvBody(fmt.Sprintf("fresh-%d-%d", os.Getpid(), fvFresh), q)
			want, err := fvAsk(freshBody)
			if err != nil {
				fmt.Println("VERIF-INFRA: the validator does not answer:", err)
				t.Fatalf("infrastructure")
			}
			r.Class(fmt.Sprintf("answer: HTTP %d success=%v", got.Status, got.Success))
			if got.Status != want.Status || got.Success != want.Success {
				t.Fatalf("%s", r.Fail(map[string]any{"case": c, "request": i}, "request %d (set-up id %q) is answered %s (%s); the same set under an id never used before is answered %s (%s): the verdict depends on what was validated under the id before",
					i, c.ID, got, got.Message, want, want.Message))
			}
			if failedBefore {
				r.Class("request after one that failed or was refused under the same id")
				r.NonTrivial(ev.JSON([]any{c, i}), func() any { return map[string]any{"case": c, "request": i, "answer": got.String()} })
			}
			if got.Status != 200 || !got.Success {
				failedBefore = true
			}
			if got.Status == 200 && got.Success && wellFormed {
				// what the validator accepts, the gateway loads
				dir, e := engine.NewDir(scratch)
				if e != nil {
					fmt.Println("VERIF-INFRA:", e)
					t.Fatalf("infrastructure")
				}
				for n, text := range flows {
					_ = dir.WriteFlow(n, text)
				}
				for n, text := range quotas {
					_ = dir.WriteQuota(n, text)
				}
				_, lerr := dir.Load()
				dir.Remove()
				if lerr != nil {
					t.Fatalf("%s", r.Fail(map[string]any{"case": c, "request": i}, "request %d: the validator accepts the set, the gateway's loader refuses exactly these files: %v", i, lerr))
				}
			}
		}
	})
}
