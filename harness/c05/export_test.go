package c05

// Unit TestExportServerOutages: an accepted configuration whose response path exports every transaction (the
// HARCollector processor) runs against the real TCP export writer (writers.Dial, installed as the context
// manager's file exporter exactly as routing.NewHandlingDataManager does), while the export server goes away and
// comes back at generated points of the traffic. Whatever happens to the exports, handling a transaction finishes
// and returns actions or an error; it never panics.

import (
	"fmt"
	"io"
	"net"
	"strings"
	"sync"
	"testing"
	"time"

	lunarmessages "lunar/engine/messages"
	streamtypes "lunar/engine/streams/types"
	"lunar/engine/utils/writers"
	lclock "lunar/toolkit-core/clock"
	contextmanager "lunar/toolkit-core/context-manager"

	"pgregory.net/rapid"

	"verif/harness/internal/engine"
	"verif/harness/internal/ev"
)

const harFlow = `name: harflow
filter:
  url: h.com/*
processors:
  Collector:
    processor: HARCollector
    parameters:
      - key: exporter_id
        value: har_exporter
flow:
  request:
    - from:
        stream:
          name: globalStream
          at: start
      to:
        stream:
          name: globalStream
          at: end
  response:
    - from:
        stream:
          name: globalStream
          at: start
      to:
        processor:
          name: Collector
    - from:
        processor:
          name: Collector
      to:
        stream:
          name: globalStream
          at: end
`

type impatientClock struct{ lclock.Clock }

func (impatientClock) Sleep(time.Duration) {}

type sink struct {
	mu    sync.Mutex
	ln    net.Listener
	addr  string
	conns []net.Conn
}

func (s *sink) up() error {
	s.mu.Lock()
	defer s.mu.Unlock()
	if s.ln != nil {
		return nil
	}
	addr := s.addr
	if addr == "" {
		addr = "127.0.0.1:0"
	}
	// thousands of short-lived connections per minute leave the ephemeral ports in TIME_WAIT for a while: a listen
	// that finds none free is tried again for up to 90 s (the sockets drain) before the case gives up
	var ln net.Listener
	var err error
	for try := 0; ; try++ {
		if ln, err = net.Listen("tcp", addr); err == nil {
			break
		}
		if try >= 180 || !strings.Contains(err.Error(), "address already in use") {
			return err
		}
		time.Sleep(500 * time.Millisecond)
	}
	s.ln, s.addr = ln, ln.Addr().String()
	go func() {
		for {
			c, err := ln.Accept()
			if err != nil {
				return
			}
			if tc, ok := c.(*net.TCPConn); ok {
				_ = tc.SetLinger(0) // closed by this side with a reset: no TIME_WAIT entry per connection
			}
			s.mu.Lock()
			s.conns = append(s.conns, c)
			s.mu.Unlock()
			go io.Copy(io.Discard, c)
		}
	}()
	return nil
}

func (s *sink) down() {
	s.mu.Lock()
	defer s.mu.Unlock()
	if s.ln != nil {
		s.ln.Close()
		s.ln = nil
	}
	for _, c := range s.conns {
		c.Close()
	}
	s.conns = nil
}

func TestExportServerOutages(t *testing.T) {
	r := ev.New(t, "C05")
	rapid.Check(t, func(t *rapid.T) {
		steps := rapid.SliceOfN(rapid.SampledFrom([]string{"txn", "txn", "txn", "txn", "down", "up"}), 4, 30).Draw(t, "steps")
		startUp := rapid.IntRange(0, 4).Draw(t, "server-up-at-start") > 0
		c := map[string]any{"export_server_up_at_start": startUp, "steps": steps}
		r.Case()
		srv := &sink{}
		if err := srv.up(); err != nil {
			fmt.Println("VERIF-INFRA: cannot listen:", err)
			t.Fatalf("infrastructure")
		}
		defer srv.down()
		if !startUp {
			srv.down() // the address is known, nobody listens: Dial hands out its null writer
		}
		// Dial's own retry pauses (1 s each while nobody listens) are skipped: a clock whose Sleep returns at once
		exporter := writers.Dial("tcp", srv.addr, impatientClock{contextmanager.Get().GetClock()})
		contextmanager.Get().WithFileExporter(exporter)
		dir, err := engine.NewDir(scratch)
		if err != nil {
			fmt.Println("VERIF-INFRA:", err)
			t.Fatalf("infrastructure")
		}
		defer dir.Remove()
		_ = dir.WriteFlow("har.yaml", harFlow)
		s, lerr := dir.Load()
		if lerr != nil {
			fmt.Println("VERIF-INFRA: the HARCollector flow was rejected:", lerr)
			t.Fatalf("infrastructure")
		}
		outage, n := false, 0
		for i, st := range steps {
			switch st {
			case "down":
				srv.down()
				outage = true
			case "up":
				if err := srv.up(); err != nil {
					r.Class("port taken meanwhile")
				}
			case "txn":
				n++
				id := fmt.Sprintf("x%d", n)
				func() {
					defer func() {
						if p := recover(); p != nil {
							t.Fatalf("%s", r.Fail(c, "step %d: handling transaction %s of an accepted configuration panicked: %v", i, id, p))
						}
					}()
					// the full-request / full-response messages of a flow that needs the bodies, the request kept for
					// the response side as routing.processRequest keeps it
					now := time.Now()
					req := streamtypes.NewRequestAPIStream(lunarmessages.OnRequest{LunarName: lunarmessages.LunarFullRequest, ID: id, SequenceID: id, Method: "GET",
						Scheme: "https", URL: "h.com/a", Path: "/a", Query: "a=1", Headers: map[string]string{"host": "h.com"}, RawBody: []byte(`{"hello":"world"}`), Time: now}, engine.SharedState)
					_ = engine.Run(s, req)
					req.StoreRequest()
					resp := streamtypes.NewResponseAPIStream(lunarmessages.OnResponse{LunarName: lunarmessages.LunarFullResponse, ID: id, SequenceID: id, Method: "GET",
						URL: "h.com/a", Status: 200, Headers: map[string]string{"content-type": "application/json"}, RawBody: []byte(`{"ok":true}`), Time: now}, engine.SharedState)
					defer resp.DiscardRequest()
					_ = engine.Run(s, resp)
				}()
			}
		}
		if outage && startUp {
			r.Class("the export server went away while the gateway was exporting")
			r.NonTrivial(ev.JSON(c), func() any { return c })
		}
	})
}
