package c05

// Unit TestHostileMessagesThroughHandler: "handling any transaction ... never panics or crashes the engine
// process", with the transaction arriving the way the proxy sends it - as an SPOE message through routing.Handler
// of a real HandlingDataManager that has loaded the fixed body- / header- / query-parsing configuration of the
// hostile-transaction unit. What is generated here is the MESSAGE: which arguments it carries at all, their types
// (a text where bytes are expected, an integer where a text is expected), and the text of the `headers` argument -
// absent, empty, white space only, a bare CRLF, lines without a colon, names in several letter cases and on several
// lines, NUL and non-UTF-8 bytes, very long lines. The SPOE library does not recover a panic of the handler: a panic
// here is a crash of the engine process. The handler must return for every message; its answer is not judged.

import (
	"fmt"
	"io"
	"net"
	"net/http"
	"os"
	"path/filepath"
	"strings"
	"sync"
	"testing"
	"time"

	"lunar/engine/routing"
	contextmanager "lunar/toolkit-core/context-manager"
	"lunar/toolkit-core/logging"

	"github.com/negasus/haproxy-spoe-go/message"
	spoekv "github.com/negasus/haproxy-spoe-go/payload/kv"
	spoereq "github.com/negasus/haproxy-spoe-go/request"
	"github.com/rs/zerolog"
	"pgregory.net/rapid"

	"verif/harness/internal/engine"
	"verif/harness/internal/ev"
)

type quietProxy struct{}

func (quietProxy) RoundTrip(req *http.Request) (*http.Response, error) {
	if req.Body != nil {
		_, _ = io.Copy(io.Discard, req.Body)
		req.Body.Close()
	}
	return &http.Response{StatusCode: 200, Status: "200 OK", Body: io.NopCloser(strings.NewReader("ok")), Header: http.Header{}, Request: req}, nil
}

var (
	hOnce    sync.Once
	hErr     error
	hHandler routing.MessageHandler
)

func handlerSetup() {
	hOnce.Do(func() {
		d, err := os.MkdirTemp(scratch, "mgr-")
		if err != nil {
			hErr = err
			return
		}
		for _, sub := range []string{"flows", "quotas", "path_params", "state"} {
			os.MkdirAll(filepath.Join(d, sub), 0o755)
		}
		metrics, _ := os.ReadFile(filepath.Join(engine.Repo(), "proxy/metrics.yaml"))
		os.WriteFile(filepath.Join(d, "metrics_default.yaml"), metrics, 0o644)
		for k, v := range map[string]string{
			"LUNAR_STREAMS_ENABLED":              "true",
			"TENANT_NAME":                        "verif",
			"LUNAR_PROXY_FLOW_DIRECTORY":         filepath.Join(d, "flows"),
			"LUNAR_PROXY_QUOTAS_DIRECTORY":       filepath.Join(d, "quotas"),
			"LUNAR_FLOWS_PATH_PARAM_DIR":         filepath.Join(d, "path_params"),
			"LUNAR_PROXY_CONFIG":                 filepath.Join(d, "gateway_config.yaml"),
			"LUNAR_PROXY_METRICS_CONFIG":         filepath.Join(d, "metrics_user.yaml"),
			"LUNAR_PROXY_METRICS_CONFIG_DEFAULT": filepath.Join(d, "metrics_default.yaml"),
			"DISCOVERY_STATE_LOCATION":           filepath.Join(d, "state", "discovery.json"),
			"REMEDY_STATE_LOCATION":              filepath.Join(d, "state", "remedy.json"),
			"LUNAR_FLOWS_PATH_PARAM_CONFIG":      filepath.Join(d, "state", "path_param_conf.yaml"),
		} {
			os.Setenv(k, v)
		}
		os.WriteFile(filepath.Join(d, "flows", "hostile.yaml"), []byte(hostileFlows), 0o644)
		for name, y := range hostileCompanions {
			os.WriteFile(filepath.Join(d, "flows", name), []byte(y), 0o644)
		}
		http.DefaultTransport = quietProxy{}
		if ln, err := net.Listen("tcp", "127.0.0.1:5140"); err == nil {
			go func() {
				for {
					c, err := ln.Accept()
					if err != nil {
						return
					}
					go io.Copy(io.Discard, c)
				}
			}()
		}
		hErr = func() (err error) {
			defer func() {
				if r := recover(); r != nil {
					err = fmt.Errorf("panic in manager setup: %v", r)
				}
			}()
			tw := logging.ConfigureLogger("lunar-engine", false, contextmanager.Get().GetClock())
			if os.Getenv("VERIF_LOG") == "" {
				zerolog.SetGlobalLevel(zerolog.Disabled)
			}
			data := routing.NewHandlingDataManager(10*time.Second, nil)
			if err := data.Setup(tw); err != nil {
				return err
			}
			hHandler = routing.Handler(data)
			return nil
		}()
	})
}

// a header block as the proxy dumps it, or something a client / a proxy of another version may leave there
func genHeaderBlock() *rapid.Generator[string] {
	line := rapid.OneOf(
		rapid.SampledFrom([]string{"host: h.com", "Host: h.com", "content-type: application/json", "content-length: 12", "content-encoding: gzip",
			"x-who: bob", "X-Who: alice", "x-del: 1", "x-set: old", "x-lunar-consumer-tag: t", "x-lunar-req-id: abc", "accept: */*",
			"no-colon-here", ":", ": value-without-name", "name-without-value:", " leading-space: 1", "x-tab:\tv", "x-nul: a\x00b", "x-bin: \xff\xfe",
			"x-long: " + strings.Repeat("v", 9000), strings.Repeat("n", 300) + ": 1", "x-é: ü", "x-dup: 1", "x-dup: 2", ""}),
		rapid.StringMatching(`[a-zA-Z-]{1,8}: [ -~]{0,12}`),
	)
	return rapid.OneOf(
		// no header block at all, in the spellings an empty one comes in
		rapid.SampledFrom([]string{"", " ", "\r\n", "\r\n\r\n", "\n", "\t\r\n", "   \r\n  "}),
		rapid.Custom(func(t *rapid.T) string {
			lines := rapid.SliceOfN(line, 0, 6).Draw(t, "lines")
			sep := rapid.SampledFrom([]string{"\r\n", "\r\n", "\n"}).Draw(t, "sep")
			end := rapid.SampledFrom([]string{"\r\n\r\n", "\r\n", "", "\n\n"}).Draw(t, "end")
			return strings.Join(lines, sep) + end
		}),
	)
}

func TestHostileMessagesThroughHandler(t *testing.T) {
	handlerSetup()
	if hErr != nil {
		fmt.Println("VERIF-INFRA: manager setup failed:", hErr)
		t.Fatalf("%v", hErr)
	}
	r := ev.New(t, "C05")
	seq := 0
	rapid.Check(t, func(t *rapid.T) {
		seq++
		id := fmt.Sprintf("m%d", seq)
		args := map[string]any{}
		// every argument may be missing, or of another type than the handler reads
		put := func(name string, v any) {
			switch rapid.IntRange(0, 19).Draw(t, "shape-"+name) {
			case 0: // missing
			case 1:
				args[name] = int64(7)
			case 2:
				switch x := v.(type) {
				case string:
					args[name] = []byte(x)
				case []byte:
					args[name] = string(x)
				default:
					args[name] = fmt.Sprint(x)
				}
			default:
				args[name] = v
			}
		}
		path := "/" + rapid.OneOf(rapid.SampledFrom([]string{"a", "a/b", "v1/x", "a/b/c", ""}), genHostileString("path")).Draw(t, "path")
		hdr := genHeaderBlock().Draw(t, "headers")
		body := rapid.OneOf(rapid.SampledFrom(hostileBodies), genHostileString("body")).Draw(t, "body")
		response := rapid.IntRange(0, 2).Draw(t, "response") == 0
		put("id", id)
		put("sequence_id", id)
		put("method", rapid.SampledFrom([]string{"GET", "POST", "PUT", "", "get", "BREW"}).Draw(t, "method"))
		put("url", "h.com"+path)
		put("headers", hdr)
		put("body", []byte(body))
		name := "lunar-on-request"
		if response {
			name = "lunar-on-response"
			put("status", int64(rapid.SampledFrom([]int{0, 200, 500, 599, 600, -1}).Draw(t, "status")))
		} else {
			put("scheme", rapid.SampledFrom([]string{"https", "http", ""}).Draw(t, "scheme"))
			put("path", path)
			put("query", rapid.OneOf(rapid.SampledFrom([]string{"", "limit=1", "limit", "version=1", "version=2&limit=1", "a=%zz", "&&&"}), genHostileString("q")).Draw(t, "query"))
		}
		if rapid.IntRange(0, 9).Draw(t, "full") == 0 {
			name = map[bool]string{false: "lunar-on-full-request", true: "lunar-on-full-response"}[response]
		} else if rapid.IntRange(0, 29).Draw(t, "unknown") == 0 {
			name = rapid.SampledFrom([]string{"lunar-on-something-else", "", "LUNAR-ON-REQUEST"}).Draw(t, "unknown-name")
		}
		c := map[string]any{"message": name, "arguments": fmt.Sprintf("%q", args)}
		r.Case()
		headerless := strings.TrimSpace(hdr) == ""
		_, hasHdr := args["headers"].(string)
		switch {
		case !hasHdr:
			r.Class("headers argument missing or not a text")
		case headerless:
			r.Class("header block empty / white space only")
		default:
			r.Class("header block with lines")
		}
		if headerless || !hasHdr || strings.ContainsAny(hdr, "\x00\xff") || !strings.Contains(hdr, ":") {
			r.NonTrivial(ev.JSON(c), func() any { return c })
		}
		k := spoekv.NewKV()
		for n, v := range args {
			k.Add(n, v)
		}
		msgs := message.Messages{&message.Message{Name: name, KV: k}}
		journal(config{Tags: []string{"hostile message", fmt.Sprintf("%q", c)}})
		func() {
			defer func() {
				if p := recover(); p != nil {
					if sl, ok := p.(engine.StepLimit); ok {
						t.Fatalf("%s", r.Fail(c, "message does not terminate: more than %d processor executions", sl.Limit))
					}
					t.Fatalf("%s", r.Fail(c, "the handler panicked on a %s message (the SPOE library does not recover it - the engine process dies): %v", name, p))
				}
			}()
			hHandler(&spoereq.Request{Messages: &msgs})
		}()
		clearJournal()
	})
}
