package c05

// knownCrasher: structural predicate of configurations that a listed known
// finding says kill the process (they are not executed in-process; a witness is
// confirmed in an isolated child by TestWitness…).
func knownCrasher(c config) (bool, string) {
	return false, ""
}

// knownViolation attributes a recovered violation to a listed known finding.
func knownViolation(c config, o outcome) string {
	return ""
}
