package c05

// Hostile transaction content against fixed accepted configurations whose processors parse bodies,
// headers, URLs and query strings. The configuration side of C05 is covered by the other units; here
// the quantifier "any transaction" is attacked: every ExecuteFlow must return (actions or an error)
// within the step bound, without panic.

import (
	"fmt"
	"strings"
	"sync"
	"sync/atomic"
	"testing"

	"lunar/engine/streams"

	"pgregory.net/rapid"

	"verif/harness/internal/engine"
	"verif/harness/internal/ev"
)

const hostileFlows = `name: hostile
filter:
  url: "h.com/*"
processors:
  FBody:
    processor: Filter
    parameters:
      - key: url
        value: "h.com/(a|b)+/.*"
      - key: endpoint
        value: "/v1/*"
  Tr:
    processor: TransformAPICall
    parameters:
      - key: set
        value:
          "$.request.body.a.b": "1"
          "$.request.headers['x-set']": "v"
          "$.request.parsed_query.limit[0]": "20"
      - key: delete
        value: ["$.request.body.c", "$.request.headers['x-del']"]
      - key: obfuscate
        value: ["$.request.body.d", "$.request.body.e[0].f"]
  San:
    processor: DataSanitation
  Metric:
    processor: UserDefinedMetrics
    parameters:
      - key: metric_name
        value: verif_metric
      - key: metric_value
        value: "$.request.body.errors.count"
      - key: custom_metric_labels
        value:
          who: "$.request.headers['x-who']"
  Script:
    processor: CustomScript
    parameters:
      - key: script_text
        value: "var b = request.body; if (b && b.length > 3) { request.headers['x-js'] = 'long'; } "
  FStatus:
    processor: Filter
    parameters:
      - key: status_code_range
        value: "500-599"
  RTr:
    processor: TransformAPICall
    parameters:
      - key: set
        value:
          "$.response.body.x.y": "1"
      - key: obfuscate
        value: ["$.response.body.secret"]
flow:
  request:
    - from:
        stream:
          name: globalStream
          at: start
      to:
        processor:
          name: FBody
    - from:
        processor:
          name: FBody
          condition: hit
      to:
        processor:
          name: Tr
    - from:
        processor:
          name: FBody
          condition: miss
      to:
        processor:
          name: Tr
    - from:
        processor:
          name: Tr
      to:
        processor:
          name: San
    - from:
        processor:
          name: San
      to:
        processor:
          name: Script
    - from:
        processor:
          name: Script
          condition: success
      to:
        processor:
          name: Metric
    - from:
        processor:
          name: Script
          condition: failure
      to:
        processor:
          name: Metric
    - from:
        processor:
          name: Metric
      to:
        stream:
          name: globalStream
          at: end
  response:
    - from:
        stream:
          name: globalStream
          at: start
      to:
        processor:
          name: FStatus
    - from:
        processor:
          name: FStatus
          condition: hit
      to:
        processor:
          name: RTr
    - from:
        processor:
          name: FStatus
          condition: miss
      to:
        processor:
          name: RTr
    - from:
        processor:
          name: RTr
      to:
        stream:
          name: globalStream
          at: end
`

// companion flows on the same URL pattern that are told apart by the other filter kinds (query parameters,
// headers, methods, status codes): the selection itself then has to parse the transaction
func hostileCompanion(name, constraint string) string {
	return "name: " + name + `
filter:
  url: "h.com/*"
` + constraint + `processors:
  F:
    processor: Filter
    parameters:
      - key: header
        value: "x-never=1"
flow:
  request:
    - from:
        stream:
          name: globalStream
          at: start
      to:
        processor:
          name: F
    - from:
        processor:
          name: F
          condition: hit
      to:
        stream:
          name: globalStream
          at: end
    - from:
        processor:
          name: F
          condition: miss
      to:
        stream:
          name: globalStream
          at: end
  response:
    - from:
        stream:
          name: globalStream
          at: start
      to:
        stream:
          name: globalStream
          at: end
`
}

var hostileCompanions = map[string]string{
	"q1.yaml": hostileCompanion("q1", "  query_params:\n    - key: version\n      value: \"1\"\n"),
	"q2.yaml": hostileCompanion("q2", "  query_params:\n    - key: version\n      value: \"2\"\n    - key: limit\n      value: \"1\"\n"),
	"hd.yaml": hostileCompanion("hd", "  headers:\n    - key: x-who\n      value: gzip\n"),
	"me.yaml": hostileCompanion("me", "  method: [POST, PUT]\n"),
	"st.yaml": hostileCompanion("st", "  status_code: [500, 599]\n"),
}

var hostileBodies = []string{
	"", " ", "null", "true", "0", "-0", "1e999", "\"s\"", "[]", "{}", "[[[[[[[[[[[[[[[[[[[[]]]]]]]]]]]]]]]]]]]]",
	`{"a":1}`, `{"a":{"b":{"c":{"d":{"e":{"f":{}}}}}}}`, `{"a":"needle","c":[1,2,3],"d":"x","e":[{"f":"y"}]}`,
	`{"a":null,"d":null,"e":null}`, `{"a":[1,2],"e":"notarray"}`, `{"e":[]}`, `{"e":[null]}`, `{"errors":{"count":"NaN"}}`,
	`{"errors":{"count":1e400}}`, `{"a":1,"a":2}`, `{"":""}`, `{"a.b":1,"a[0]":2}`, "{", "}", `{"a":`, "[1,", `{"a":"\ud800"}`,
	"\x00\x01\x02", "\xff\xfe", "needle", strings.Repeat("{\"a\":", 200) + "1" + strings.Repeat("}", 200),
	strings.Repeat("9", 400), `{"big":` + strings.Repeat("1", 400) + `}`, "a=1&b=2", "<xml/>", "4111 1111 1111 1111 bob@example.com +1 650-253-0000",
	`{"email":"bob@example.com","card":"4111111111111111","secret":{"k":[1,{"z":true}]}}`,
}

func genHostileString(label string) *rapid.Generator[string] {
	return rapid.OneOf(
		rapid.SampledFrom([]string{"", " ", "\t", "%", "%zz", "%00", "..", "//", "?", "#", "*", "{x}", "a b", "é", "\U0001F600", "\x7f", "a\x00b", "'", "\"", "\\", "&&", "=", "==", ";"}),
		rapid.StringN(0, 12, 40),
		rapid.StringMatching(`[ -~]{0,16}`),
	)
}

func TestHostileTransactions(t *testing.T) {
	r := ev.New(t, "C05")
	rec = engine.Capture(0)
	defer rec.Stop()
	dir, err := engine.NewDir(scratch)
	if err != nil {
		fmt.Println("VERIF-INFRA:", err)
		t.Fatalf("%v", err)
	}
	defer dir.Remove()
	_ = dir.WriteFlow("hostile.yaml", hostileFlows)
	for name, y := range hostileCompanions {
		_ = dir.WriteFlow(name, y)
	}
	s, err := dir.Load()
	if err != nil {
		fmt.Println("VERIF-INFRA: the fixed body-parsing configuration was rejected:", err)
		t.Fatalf("%v", err)
	}
	n := 0
	// regression inputs of the defect fixed in /repo (nil parsed URL): must return, not panic
	for i, path := range []string{"/%zz", "/a%2", "/\t", "/%"} {
		func() {
			defer func() {
				if p := recover(); p != nil {
					t.Fatalf("%s", r.Fail(map[string]any{"path": path}, "panic while handling a request for %q: %v", path, p))
				}
			}()
			r.Case()
			engine.RunRequest(s, engine.Txn{ID: fmt.Sprintf("reg%d", i), Method: "GET", URL: "h.com" + path, Path: path, Headers: map[string]string{"host": "h.com"}, Body: `{"email":"bob@example.com"}`})
		}()
	}
	rapid.Check(t, func(t *rapid.T) {
		body := rapid.OneOf(rapid.SampledFrom(hostileBodies), genHostileString("body"),
			rapid.Custom(func(t *rapid.T) string { // a valid body with one hostile splice
				b := rapid.SampledFrom(hostileBodies[10:20]).Draw(t, "base")
				if len(b) == 0 {
					return b
				}
				i := rapid.IntRange(0, len(b)-1).Draw(t, "at")
				return b[:i] + genHostileString("splice").Draw(t, "splice") + b[i:]
			})).Draw(t, "body")
		h := map[string]string{"host": "h.com"}
		for i := 0; i < rapid.IntRange(0, 4).Draw(t, "nh"); i++ {
			k := rapid.SampledFrom([]string{"content-encoding", "content-type", "content-length", "x-who", "x-del", "x-set", "accept-encoding", "host", "x-lunar-consumer-tag"}).Draw(t, "hk")
			v := rapid.OneOf(rapid.SampledFrom([]string{"gzip", "deflate", "br", "identity", "application/json", "text/plain; charset=utf-16", "-1", "0", "99999999999999999999", "chunked"}), genHostileString("hv")).Draw(t, "hv")
			h[k] = v
		}
		path := "/" + genHostileString("path").Draw(t, "path")
		url := "h.com" + path
		query := rapid.OneOf(rapid.SampledFrom([]string{"", "limit=1", "limit", "limit=1&limit=2", "=", "&&&", "a=%zz", "limit[0]=x", "version=1", "version=2&limit=1", "version=%zz", "version"}), genHostileString("q")).Draw(t, "query")
		status := rapid.SampledFrom([]int{0, 200, 500, 599, 600, -1, 99999}).Draw(t, "status")
		n++
		id := fmt.Sprintf("h%d", n)
		c := map[string]any{"body": body, "headers": h, "url": url, "query": query, "status": status}
		r.Case()
		hostile := !strings.HasPrefix(strings.TrimSpace(body), "{") || strings.ContainsAny(body, "\x00\xff") || strings.ContainsAny(path, "%\x00 ") || h["content-encoding"] != ""
		if hostile {
			r.NonTrivial(ev.JSON(c), func() any { return c })
		}
		func() {
			defer func() {
				if p := recover(); p != nil {
					if sl, ok := p.(engine.StepLimit); ok {
						t.Fatalf("%s", r.Fail(c, "transaction does not terminate: more than %d processor executions", sl.Limit))
					}
					t.Fatalf("%s", r.Fail(c, "panic while handling a transaction: %v", p))
				}
			}()
			journal(config{Tags: []string{"hostile transaction", fmt.Sprint(c)}})
			_ = recArm(64)
			res := engine.RunRequest(s, engine.Txn{ID: id, Method: rapid.SampledFrom([]string{"GET", "POST", "", "get", "BREW"}).Draw(t, "method"), URL: url, Path: path, Query: query, Headers: h, Body: body})
			if res.Err != nil {
				r.Class("request: error returned")
			} else {
				r.Class("request: actions returned")
			}
			_ = recArm(64)
			res = engine.RunResponse(s, engine.Txn{ID: id, Method: "POST", URL: url, Headers: h, Body: body, Status: status})
			if res.Err != nil {
				r.Class("response: error returned")
			} else {
				r.Class("response: actions returned")
			}
			clearJournal()
		}()
	})
}

// FuzzHostileTransaction: native coverage-guided fuzz target over the same fixed configuration and the same
// oracle (every ExecuteFlow returns within the step bound, no panic). The driver runs it in the thorough tier.
var (
	fuzzStreamOnce sync.Once
	fuzzStream     *streams.Stream
	fuzzStreamErr  error
	fuzzSeq        atomic.Int64
)

func FuzzHostileTransaction(f *testing.F) {
	for _, b := range hostileBodies {
		f.Add([]byte(b), "/a", "limit=1", "content-type", "application/json", "GET", 200)
	}
	for _, p := range []string{"/%zz", "/a%2", "/\t", "/%", "//", "/*", "/{x}", "/a b", "/\x00"} {
		f.Add([]byte(`{"email":"bob@example.com","a":"needle"}`), p, "version=1", "x-who", "gzip", "POST", 500)
	}
	f.Add([]byte(`{"a":1}`), "/a", "version=%zz&limit", "content-encoding", "gzip", "", 599)
	f.Fuzz(func(t *testing.T, body []byte, path, query, hk, hv, method string, status int) {
		fuzzStreamOnce.Do(func() {
			rec = engine.Capture(0)
			dir, err := engine.NewDir(scratch)
			if err != nil {
				fuzzStreamErr = err
				return
			}
			_ = dir.WriteFlow("hostile.yaml", hostileFlows)
			for name, y := range hostileCompanions {
				_ = dir.WriteFlow(name, y)
			}
			fuzzStream, fuzzStreamErr = dir.Load()
		})
		if fuzzStreamErr != nil {
			t.Skip(fuzzStreamErr)
		}
		if !strings.HasPrefix(path, "/") {
			path = "/" + path
		}
		h := map[string]string{"host": "h.com"}
		if hk != "" {
			h[strings.ToLower(hk)] = hv
		}
		id := fmt.Sprintf("z%d", fuzzSeq.Add(1))
		defer func() {
			if p := recover(); p != nil {
				if sl, ok := p.(engine.StepLimit); ok {
					t.Fatalf("transaction does not terminate: more than %d processor executions", sl.Limit)
				}
				t.Fatalf("panic while handling a transaction (path %q query %q header %q=%q method %q body %q): %v", path, query, hk, hv, method, body, p)
			}
		}()
		_ = recArm(64)
		engine.RunRequest(fuzzStream, engine.Txn{ID: id, Method: method, URL: "h.com" + path, Path: path, Query: query, Headers: h, Body: string(body)})
		_ = recArm(64)
		engine.RunResponse(fuzzStream, engine.Txn{ID: id, Method: method, URL: "h.com" + path, Headers: h, Body: string(body), Status: status})
	})
}
