// C05 — every configuration the loader accepts runs safely on all traffic.
package c05

import (
	"encoding/json"
	"fmt"
	"os"
	"os/exec"
	"runtime/debug"
	"sort"
	"strconv"
	"strings"
	"testing"
	"time"

	"pgregory.net/rapid"

	"verif/harness/internal/engine"
	"verif/harness/internal/ev"
	fg "verif/harness/internal/flowgen"
)

// ---- a configuration under test -------------------------------------------------------

type config struct {
	Flows    []fg.Flow         `json:"flows"`
	RawFlows map[string]string `json:"raw_flows,omitempty"` // extra flow files given as text (malformed YAML etc.)
	Quotas   map[string]string `json:"quotas,omitempty"`    // file name -> YAML text
	Tags     []string          `json:"tags,omitempty"`
	LogLevel string            `json:"log_level,omitempty"` // the gateway's log level while the configuration is loaded and run ("" = off; output discarded)
}

type outcome struct {
	Accepted  bool   `json:"accepted"`
	Lenient   bool   `json:"accepted_by_the_gateway_loader_only,omitempty"` // the validator refused the directory, the gateway's own loader took it (skipping files)
	LoadErr   string `json:"load_error,omitempty"`
	Violation string `json:"violation,omitempty"`
	Steps     int    `json:"steps"`
	Txns      int    `json:"txns"`
}

var scratch string
var rec *engine.Recorder

func TestMain(m *testing.M) {
	engine.Setup()
	debug.SetMaxStack(64 << 20) // a runaway recursion dies quickly instead of eating the machine
	base := os.Getenv("VERIF_SCRATCH")
	if base == "" {
		base = os.TempDir()
	}
	d, err := os.MkdirTemp(base, "c05-")
	if err != nil {
		fmt.Println("VERIF-INFRA: cannot create scratch dir:", err)
		os.Exit(2)
	}
	scratch = d
	code := m.Run()
	os.RemoveAll(d)
	os.Exit(code)
}

func journal(c config) {
	if p := os.Getenv("VERIF_JOURNAL"); p != "" {
		b, _ := json.Marshal(map[string]any{"note": "the worker died while handling this configuration", "config": c})
		_ = os.WriteFile(p, b, 0o644)
	}
}

func clearJournal() {
	if p := os.Getenv("VERIF_JOURNAL"); p != "" {
		_ = os.Remove(p)
	}
}

func (c config) nodeCount() int {
	n := 0
	for _, f := range c.Flows {
		n += len(f.Procs)
	}
	return n + 8*len(c.Quotas) + 2
}

func (c config) filterHeaders() []string {
	set := map[string]bool{}
	for _, f := range c.Flows {
		for _, p := range f.Procs {
			if p.Kind == "F" && p.Arg != "" {
				set[p.Arg] = true
			}
		}
	}
	out := []string{}
	for k := range set {
		out = append(out, k)
	}
	sort.Strings(out)
	if len(out) > 3 {
		out = out[:3]
	}
	return out
}

func (c config) urls() []string {
	set := map[string]bool{}
	for _, f := range c.Flows {
		u := strings.TrimSuffix(f.URL, "/*")
		if u == "" || u == "*" {
			u = "h.com/p"
		}
		set[u] = true
	}
	out := []string{}
	for k := range set {
		out = append(out, k)
	}
	sort.Strings(out)
	return out
}

// run loads the configuration through the validator's code path and, if it is
// accepted, drives a battery of transactions through it under a step bound.
func run(c config) (o outcome) {
	engine.WithLogLevel(c.LogLevel, func() { o = runAtLevel(c) })
	return o
}

func runAtLevel(c config) (o outcome) {
	journal(c)
	defer clearJournal()
	dir, err := engine.NewDir(scratch)
	if err != nil {
		o.Violation = "VERIF-INFRA: " + err.Error()
		return o
	}
	defer dir.Remove()
	for i, f := range c.Flows {
		_ = dir.WriteFlow(fmt.Sprintf("f%d.yaml", i), f.YAML())
	}
	for name, txt := range c.RawFlows {
		_ = dir.WriteFlow(name, txt)
	}
	for name, txt := range c.Quotas {
		_ = dir.WriteQuota(name, txt)
	}
	limit := 4*c.nodeCount() + 16
	phase := "validation"
	defer func() {
		if r := recover(); r != nil {
			if sl, ok := r.(engine.StepLimit); ok {
				o.Violation = fmt.Sprintf("accepted configuration does not terminate: more than %d processor executions for one transaction (%s)", sl.Limit, phase)
			} else {
				o.Violation = fmt.Sprintf("panic during %s: %v", phase, r)
			}
		}
	}()
	s, lerr := dir.Load()
	if lerr != nil {
		o.LoadErr = lerr.Error()
		if len(c.RawFlows) == 0 {
			return o
		}
		// the second acceptor of the statement: the running gateway loads its directory without the validation
		// mode and skips flow files it cannot use as long as some flow remains
		phase = "load by the gateway's own loader"
		gs, gerr := dir.LoadGateway()
		if gerr != nil {
			return o
		}
		s, o.Lenient = gs, true
	}
	o.Accepted = true
	hs := c.filterHeaders()
	for _, u := range c.urls() {
		path := u[strings.Index(u+"/", "/"):]
		for mask := 0; mask < 1<<len(hs); mask++ {
			h := map[string]string{"host": "h.com"}
			for i, name := range hs {
				if mask&(1<<i) != 0 {
					h[name] = "1"
				}
			}
			id := fmt.Sprintf("t-%s-%d", u, mask)
			phase = fmt.Sprintf("request %s headers %v", u, h)
			rec.Take()
			_ = recArm(limit)
			res := engine.RunRequest(s, engine.Txn{ID: id, Method: "GET", URL: u, Path: path, Headers: h, Body: "{}"})
			o.Steps += len(rec.Take())
			o.Txns++
			_ = res
			if res.Early == nil {
				phase = fmt.Sprintf("response %s headers %v", u, h)
				_ = recArm(limit)
				res = engine.RunResponse(s, engine.Txn{ID: id, Method: "GET", URL: u, Headers: h, Status: 200, Body: "{}"})
				o.Steps += len(rec.Take())
				o.Txns++
			}
		}
	}
	return o
}

// recArm re-installs the step-bounded recorder (limit is per transaction)
func recArm(limit int) error {
	rec.Stop()
	rec = engine.Capture(limit)
	return nil
}

// ---- isolated execution of one configuration (for crashes that cannot be recovered) ------

// isolated runs c in a fresh copy of this test binary and reports how it ended.
func isolated(c config) (died bool, out string, o outcome) {
	f, err := os.CreateTemp(scratch, "case-*.json")
	if err != nil {
		return false, "VERIF-INFRA: " + err.Error(), o
	}
	defer os.Remove(f.Name())
	b, _ := json.Marshal(c)
	f.Write(b)
	f.Close()
	cmd := exec.Command(os.Args[0], "-test.run", "^TestChildOne$", "-test.timeout", "60s")
	cmd.Env = append(os.Environ(), "C05_CHILD_CASE="+f.Name(), "VERIF_STATS=", "VERIF_JOURNAL=")
	ob, err := cmd.CombinedOutput()
	out = string(ob)
	if i := strings.Index(out, "C05-OUTCOME:"); i >= 0 {
		line := out[i+len("C05-OUTCOME:"):]
		if j := strings.IndexByte(line, '\n'); j >= 0 {
			line = line[:j]
		}
		_ = json.Unmarshal([]byte(line), &o)
		return false, out, o
	}
	_ = err
	return true, out, o
}

func TestChildOne(t *testing.T) {
	p := os.Getenv("C05_CHILD_CASE")
	if p == "" {
		t.Skip("helper for isolated execution")
	}
	b, err := os.ReadFile(p)
	if err != nil {
		t.Fatal(err)
	}
	var c config
	if err := json.Unmarshal(b, &c); err != nil {
		t.Fatal(err)
	}
	rec = engine.Capture(0)
	o := run(c)
	ob, _ := json.Marshal(o)
	fmt.Printf("C05-OUTCOME:%s\n", ob)
}

// ---- structural predicates --------------------------------------------------------------------

// flowRefCycle: the flows reference each other in a cycle (processor -> flow X at start / flow X at end -> processor)
func flowRefCycle(c config) bool {
	adj := map[string][]string{}
	for _, f := range c.Flows {
		for _, cn := range append(append([]fg.Conn{}, f.Req...), f.Resp...) {
			if cn.From.Flow != "" {
				adj[f.Name] = append(adj[f.Name], cn.From.Flow)
			}
			if cn.To.Flow != "" {
				adj[f.Name] = append(adj[f.Name], cn.To.Flow)
			}
		}
	}
	state := map[string]int{}
	var dfs func(string) bool
	dfs = func(n string) bool {
		state[n] = 1
		for _, m := range adj[n] {
			if state[m] == 1 || (state[m] == 0 && dfs(m)) {
				return true
			}
		}
		state[n] = 2
		return false
	}
	for _, f := range c.Flows {
		if state[f.Name] == 0 && dfs(f.Name) {
			return true
		}
	}
	return false
}

func hasProcCycle(conns []fg.Conn) bool {
	adj := map[string][]string{}
	for _, cn := range conns {
		if cn.From.Proc != "" && cn.To.Proc != "" {
			adj[cn.From.Proc] = append(adj[cn.From.Proc], cn.To.Proc)
		}
	}
	state := map[string]int{}
	var dfs func(string) bool
	dfs = func(n string) bool {
		state[n] = 1
		for _, m := range adj[n] {
			if state[m] == 1 || (state[m] == 0 && dfs(m)) {
				return true
			}
		}
		state[n] = 2
		return false
	}
	for n := range adj {
		if state[n] == 0 && dfs(n) {
			return true
		}
	}
	return false
}

func rootless(conns []fg.Conn) bool {
	for _, cn := range conns {
		if cn.From.Stream == "start" && cn.To.Proc != "" {
			return false
		}
	}
	return true
}

func classesOf(c config) []string {
	out := append([]string{}, c.Tags...)
	for _, f := range c.Flows {
		if hasProcCycle(f.Req) {
			out = append(out, "request-cycle")
		}
		if hasProcCycle(f.Resp) {
			out = append(out, "response-cycle")
		}
		if rootless(f.Resp) && len(f.Resp) > 0 {
			out = append(out, "rootless-response")
		}
		if rootless(f.Req) {
			out = append(out, "rootless-request")
		}
		for _, cn := range append(append([]fg.Conn{}, f.Req...), f.Resp...) {
			if cn.From.Flow != "" || cn.To.Flow != "" {
				out = append(out, "flow-reference")
				break
			}
		}
	}
	if len(c.Quotas) > 0 {
		out = append(out, "with-quota-file")
	}
	if flowRefCycle(c) {
		out = append(out, "flow-reference-cycle")
	}
	sort.Strings(out)
	uniq := out[:0]
	for i, s := range out {
		if i == 0 || out[i-1] != s {
			uniq = append(uniq, s)
		}
	}
	return uniq
}

func nonTrivial(classes []string) bool {
	for _, c := range classes {
		switch c {
		case "request-cycle", "response-cycle", "rootless-response", "rootless-request", "flow-reference", "flow-reference-cycle", "invalid-quota-field", "dangling-reference", "shared-keys-across-directions":
			return true
		}
	}
	return false
}

// handle runs one configuration (unless a listed known finding says it kills the
// process) and reports a violation as an error.
func handle(r *ev.Recorder, c config) error {
	r.Case()
	cls := classesOf(c)
	for _, k := range cls {
		r.Class(k)
	}
	if nonTrivial(cls) {
		r.NonTrivial(ev.JSON(c), func() any { return map[string]any{"classes": cls, "config": c} })
	}
	if excluded, id := knownCrasher(c); excluded && r.KnownFinding(id, func() any { return c }) {
		r.Class("excluded:" + id)
		return nil
	}
	o := run(c)
	if o.Lenient {
		r.Class("refused by the validator, loaded by the gateway (unusable files skipped)")
	}
	if o.Accepted {
		r.Class("accepted")
		r.ClassN("transactions", int64(o.Txns))
		r.ClassN("processor-executions", int64(o.Steps))
	} else {
		r.Class("rejected")
		if os.Getenv("C05_REASONS") != "" {
			e := o.LoadErr
			if i := strings.LastIndex(e, ": "); i >= 0 && i+2 < len(e) {
				e = e[i+2:]
			}
			if len(e) > 60 {
				e = e[:60]
			}
			r.Class("why:" + e)
		}
	}
	if strings.HasPrefix(o.Violation, "VERIF-INFRA:") {
		fmt.Println(o.Violation)
		return fmt.Errorf("%s", o.Violation)
	}
	if o.Violation != "" {
		if id := knownViolation(c, o); id != "" && r.KnownFinding(id, func() any { return map[string]any{"config": c, "outcome": o} }) {
			return nil
		}
		return fmt.Errorf("%s", o.Violation)
	}
	return nil
}

// ---- enumeration helpers -----------------------------------------------------------------------

func shardOf() (int, int) {
	sh, _ := strconv.Atoi(os.Getenv("VERIF_SHARD"))
	n, _ := strconv.Atoi(os.Getenv("VERIF_NSHARDS"))
	if n <= 0 {
		n = 1
	}
	return sh, n
}

func subsets(n, maxSize int, visit func([]int)) {
	var rec func(start int, cur []int)
	rec = func(start int, cur []int) {
		if len(cur) > 0 {
			visit(cur)
		}
		if len(cur) == maxSize {
			return
		}
		for i := start; i < n; i++ {
			rec(i+1, append(cur, i))
		}
	}
	rec(0, nil)
}

func mkProc(key, kind string) fg.Proc {
	p := fg.Proc{Key: key, Kind: kind}
	if kind == "F" {
		p.Arg = "x-" + strings.ToLower(key)
	}
	return p
}

func maxConns() int {
	if ev.Tier() == "thorough" {
		return 4
	}
	return 3
}

// TestEnumRequestGraphs: every request direction over two processors of every
// kind combination with up to 3 (quick) / 4 (thorough) connections, including
// self-loops, 2-cycles, missing roots and connections out of an answering node.
func TestEnumRequestGraphs(t *testing.T) {
	r := ev.New(t, "C05")
	rec = engine.Capture(0)
	defer rec.Stop()
	sh, nsh := shardOf()
	idx := 0
	start := time.Now()
	for _, k0 := range []string{"F", "T", "G"} {
		for _, k1 := range []string{"F", "T", "G"} {
			procs := []fg.Proc{mkProc("P0", k0), mkProc("P1", k1)}
			froms := []fg.End{fg.StreamStart()}
			for _, p := range procs {
				for _, o := range fg.Outputs(p.Kind) {
					froms = append(froms, fg.End{Proc: p.Key, Cond: o})
				}
			}
			tos := []fg.End{fg.StreamEnd(), {Proc: "P0"}, {Proc: "P1"}}
			all := []fg.Conn{}
			for _, f := range froms {
				for _, to := range tos {
					all = append(all, fg.Conn{From: f, To: to})
				}
			}
			var failed error
			subsets(len(all), maxConns(), func(pick []int) {
				if failed != nil {
					return
				}
				idx++
				if idx%nsh != sh {
					return
				}
				f := fg.Flow{Name: "uflow", URL: "h.com/p", Procs: procs}
				for _, i := range pick {
					f.Req = append(f.Req, all[i])
				}
				f.Resp = []fg.Conn{{From: fg.StreamStart(), To: fg.StreamEnd()}}
				for _, p := range procs {
					if p.Kind == "G" {
						f.Resp = append(f.Resp, fg.Conn{From: fg.End{Proc: p.Key}, To: fg.StreamEnd()})
					}
				}
				c := config{Flows: []fg.Flow{f}}
				if err := handle(r, c); err != nil {
					failed = fmt.Errorf("%s", r.Fail(c, "%v", err))
				}
			})
			if failed != nil {
				t.Fatalf("%v", failed)
			}
		}
	}
	r.SetExhaustive(true)
	r.Note(fmt.Sprintf("enumerated %d request graphs (<=%d connections) in %s, shard %d/%d", idx, maxConns(), time.Since(start).Round(time.Millisecond), sh, nsh))
}

// TestEnumResponseGraphs: a fixed request direction that reaches an answering
// processor, and every response direction over two processors with up to 3/4
// connections from {stream start, the answering processor, the processors'
// outputs}: with and without root, with cycles hanging off the answering node.
func TestEnumResponseGraphs(t *testing.T) {
	r := ev.New(t, "C05")
	rec = engine.Capture(0)
	defer rec.Stop()
	sh, nsh := shardOf()
	idx := 0
	for _, k0 := range []string{"F", "T"} {
		for _, k1 := range []string{"F", "T"} {
			procs := []fg.Proc{mkProc("P0", "F"), mkProc("GA", "G"), mkProc("R0", k0), mkProc("R1", k1)}
			req := []fg.Conn{{From: fg.StreamStart(), To: fg.End{Proc: "P0"}}, {From: fg.End{Proc: "P0", Cond: "hit"}, To: fg.End{Proc: "GA"}}, {From: fg.End{Proc: "P0", Cond: "miss"}, To: fg.StreamEnd()}}
			froms := []fg.End{fg.StreamStart(), {Proc: "GA"}}
			for _, p := range procs[2:] {
				for _, o := range fg.Outputs(p.Kind) {
					froms = append(froms, fg.End{Proc: p.Key, Cond: o})
				}
			}
			tos := []fg.End{fg.StreamEnd(), {Proc: "R0"}, {Proc: "R1"}}
			all := []fg.Conn{}
			for _, f := range froms {
				for _, to := range tos {
					all = append(all, fg.Conn{From: f, To: to})
				}
			}
			var failed error
			subsets(len(all), maxConns(), func(pick []int) {
				if failed != nil {
					return
				}
				idx++
				if idx%nsh != sh {
					return
				}
				f := fg.Flow{Name: "uflow", URL: "h.com/p", Procs: procs, Req: req}
				for _, i := range pick {
					f.Resp = append(f.Resp, all[i])
				}
				c := config{Flows: []fg.Flow{f}}
				if err := handle(r, c); err != nil {
					failed = fmt.Errorf("%s", r.Fail(c, "%v", err))
				}
			})
			if failed != nil {
				t.Fatalf("%v", failed)
			}
		}
	}
	r.SetExhaustive(true)
	r.Note(fmt.Sprintf("enumerated %d response graphs (<=%d connections), shard %d/%d", idx, maxConns(), sh, nsh))
}

// TestEnumSharedKeyGraphs: processor keys are only unique per direction, so the same key may name a node of
// the request direction and a different node (other edges) of the response direction. A fixed acyclic request
// direction over P0 (Filter) and P1 (Transform) is combined with every response direction over the SAME keys
// plus R0 with up to 3/4 connections.
func TestEnumSharedKeyGraphs(t *testing.T) {
	r := ev.New(t, "C05")
	rec = engine.Capture(0)
	defer rec.Stop()
	sh, nsh := shardOf()
	idx := 0
	procs := []fg.Proc{mkProc("P0", "F"), mkProc("P1", "T"), mkProc("R0", "F")}
	req := []fg.Conn{{From: fg.StreamStart(), To: fg.End{Proc: "P0"}}, {From: fg.End{Proc: "P0", Cond: "hit"}, To: fg.End{Proc: "P1"}},
		{From: fg.End{Proc: "P0", Cond: "miss"}, To: fg.StreamEnd()}, {From: fg.End{Proc: "P1"}, To: fg.StreamEnd()}}
	froms := []fg.End{fg.StreamStart()}
	for _, p := range procs {
		for _, o := range fg.Outputs(p.Kind) {
			froms = append(froms, fg.End{Proc: p.Key, Cond: o})
		}
	}
	tos := []fg.End{fg.StreamEnd(), {Proc: "P0"}, {Proc: "P1"}, {Proc: "R0"}}
	all := []fg.Conn{}
	for _, f := range froms {
		for _, to := range tos {
			all = append(all, fg.Conn{From: f, To: to})
		}
	}
	var failed error
	subsets(len(all), maxConns(), func(pick []int) {
		if failed != nil {
			return
		}
		idx++
		if idx%nsh != sh {
			return
		}
		f := fg.Flow{Name: "uflow", URL: "h.com/p", Procs: procs, Req: req}
		for _, i := range pick {
			f.Resp = append(f.Resp, all[i])
		}
		c := config{Flows: []fg.Flow{f}, Tags: []string{"shared-keys-across-directions"}}
		if err := handle(r, c); err != nil {
			failed = fmt.Errorf("%s", r.Fail(c, "%v", err))
		}
	})
	if failed != nil {
		t.Fatalf("%v", failed)
	}
	r.SetExhaustive(true)
	r.Note(fmt.Sprintf("enumerated %d response graphs over keys shared with the request direction (<=%d connections), shard %d/%d", idx, maxConns(), sh, nsh))
}

// ---- random configurations (rapid) -----------------------------------------------------------------

// genFlow builds a mostly well-formed flow (forward edges, every output wired)
// and then, with small probabilities, the shapes that matter: backward edges and
// self-loops (cycles), references to the other flow, missing roots, dangling
// processor references and wrong condition names.
func genFlow(t *rapid.T, name string, others []string, url string, haveOther, haveQuota bool) fg.Flow {
	f := fg.Flow{Name: name, URL: url}
	// every flow reference names one of the other flows (or, rarely, the flow itself)
	pickOther := func(label string) string {
		if len(others) == 0 {
			return name
		}
		return rapid.SampledFrom(others).Draw(t, label)
	}
	pfx := strings.ToUpper(name[:1])
	nreq := rapid.IntRange(1, 4).Draw(t, "nreq")
	nresp := rapid.IntRange(0, 3).Draw(t, "nresp")
	kinds := map[string]string{}
	reqKeys, respKeys := []string{}, []string{}
	for i := 0; i < nreq; i++ {
		pool := []string{"F", "F", "T", "G"}
		if haveQuota {
			pool = append(pool, "L")
		}
		k := rapid.SampledFrom(pool).Draw(t, "kind")
		if i == 0 && k == "G" {
			k = "F"
		}
		key := fmt.Sprintf("%s%d", pfx, i)
		p := mkProc(key, k)
		if k == "L" {
			p.Arg = "Q0"
		}
		f.Procs = append(f.Procs, p)
		reqKeys = append(reqKeys, key)
		kinds[key] = k
	}
	for i := 0; i < nresp; i++ {
		k := rapid.SampledFrom([]string{"F", "F", "T"}).Draw(t, "rkind")
		key := fmt.Sprintf("%sR%d", pfx, i)
		f.Procs = append(f.Procs, mkProc(key, k))
		respKeys = append(respKeys, key)
		kinds[key] = k
	}
	// keys are unique per direction only: a request-direction Filter/Transform may also be a (different) node of the response direction
	for _, k := range reqKeys {
		if (kinds[k] == "F" || kinds[k] == "T") && rapid.IntRange(0, 3).Draw(t, "share-"+k) == 2 {
			respKeys = append(respKeys, k)
		}
	}
	target := func(keys []string, i int, label string) fg.End {
		switch x := rapid.IntRange(0, 39).Draw(t, label); {
		case x < 10 || len(keys) == 0:
			return fg.StreamEnd()
		case x < 36:
			if i+1 < len(keys) {
				return fg.End{Proc: keys[rapid.IntRange(i+1, len(keys)-1).Draw(t, label+"-fwd")]}
			}
			return fg.StreamEnd()
		case x < 38 && i >= 0:
			return fg.End{Proc: keys[rapid.IntRange(0, i).Draw(t, label+"-back")]} // self-loop or backward edge
		case haveOther:
			return fg.End{Flow: pickOther(label + "-flow"), At: "start"}
		}
		return fg.StreamEnd()
	}
	if rapid.IntRange(0, 19).Draw(t, "reqroot") != 11 {
		f.Req = append(f.Req, fg.Conn{From: fg.StreamStart(), To: fg.End{Proc: reqKeys[0]}})
	} else if haveOther && rapid.Bool().Draw(t, "flowroot") {
		f.Req = append(f.Req, fg.Conn{From: fg.End{Flow: pickOther("rootflow"), At: "end"}, To: fg.End{Proc: reqKeys[0]}})
	}
	for i, k := range reqKeys {
		if kinds[k] == "G" {
			continue
		}
		for _, o := range fg.Outputs(kinds[k]) {
			f.Req = append(f.Req, fg.Conn{From: fg.End{Proc: k, Cond: o}, To: target(reqKeys, i, "rt")})
		}
	}
	if len(respKeys) > 0 && rapid.IntRange(0, 3).Draw(t, "resproot") != 0 {
		f.Resp = append(f.Resp, fg.Conn{From: fg.StreamStart(), To: fg.End{Proc: respKeys[0]}})
	} else {
		f.Resp = append(f.Resp, fg.Conn{From: fg.StreamStart(), To: fg.StreamEnd()})
	}
	for i, k := range respKeys {
		for _, o := range fg.Outputs(kinds[k]) {
			f.Resp = append(f.Resp, fg.Conn{From: fg.End{Proc: k, Cond: o}, To: target(respKeys, i, "pt")})
		}
	}
	for _, k := range reqKeys {
		if kinds[k] == "G" {
			f.Resp = append(f.Resp, fg.Conn{From: fg.End{Proc: k}, To: target(respKeys, -1, "gt")})
		}
	}
	// defects
	all := func() []*fg.Conn {
		out := []*fg.Conn{}
		for i := range f.Req {
			out = append(out, &f.Req[i])
		}
		for i := range f.Resp {
			out = append(out, &f.Resp[i])
		}
		return out
	}
	if rapid.IntRange(0, 19).Draw(t, "dangling") == 13 {
		cs := all()
		cs[rapid.IntRange(0, len(cs)-1).Draw(t, "dwhere")].To = fg.End{Proc: "Nope"}
	}
	if rapid.IntRange(0, 19).Draw(t, "badcond") == 13 {
		cs := all()
		c := cs[rapid.IntRange(0, len(cs)-1).Draw(t, "cwhere")]
		if c.From.Proc != "" {
			c.From.Cond = rapid.SampledFrom([]string{"bogus", "", "hit", "below_limit"}).Draw(t, "cond")
		}
	}
	if rapid.IntRange(0, 29).Draw(t, "unknownflow") == 17 {
		cs := all()
		cs[rapid.IntRange(0, len(cs)-1).Draw(t, "fwhere")].To = fg.End{Flow: "ghostflow", At: "start"}
	}
	return f
}

func genQuotaFile(t *rapid.T) (string, []string) {
	tags := []string{}
	messy := rapid.IntRange(0, 3).Draw(t, "messy") == 3
	num := func(label string) string {
		if !messy {
			return rapid.SampledFrom([]string{"1", "3", "100", "2", "50", "1000"}).Draw(t, label)
		}
		return rapid.SampledFrom([]string{"1", "3", "100", "0", "-1", "abc", ""}).Draw(t, label)
	}
	unit := rapid.SampledFrom([]string{"second", "minute", "hour"}).Draw(t, "unit")
	if messy {
		unit = rapid.SampledFrom([]string{"second", "fortnight", ""}).Draw(t, "badunit")
	}
	var b strings.Builder
	b.WriteString("quotas:\n  - id: Q0\n    filter:\n      url: \"h.com/*\"\n    strategy:\n")
	rootKind := rapid.IntRange(0, 3).Draw(t, "rootkind")
	if rootKind == 1 && !messy {
		rootKind = 2
	}
	switch rootKind {
	case 0:
		fmt.Fprintf(&b, "      concurrent:\n        max_request_count: %s\n        request_expiration_sec: %s\n", num("cmax"), num("cexp"))
	case 1:
		b.WriteString("      allocation_percentage: 50\n")
		tags = append(tags, "invalid-quota-field")
	default:
		fmt.Fprintf(&b, "      fixed_window:\n        max: %s\n        interval: %s\n        interval_unit: %s\n", num("max"), num("interval"), unit)
	}
	nc := rapid.IntRange(0, 3).Draw(t, "children")
	if nc > 0 {
		b.WriteString("internal_limits:\n")
	}
	for i := 0; i < nc; i++ {
		parents := []string{"Q0", "Q0"}
		if i > 0 {
			parents = append(parents, fmt.Sprintf("C%d", i-1))
		}
		if i+1 < nc {
			// a limit declared above the internal limit it names as parent: valid, merely unusual
			parents = append(parents, fmt.Sprintf("C%d", i+1))
		}
		if messy {
			parents = append(parents, fmt.Sprintf("C%d", i+1), "Ghost", fmt.Sprintf("C%d", i))
		}
		parent := rapid.SampledFrom(parents).Draw(t, "parent")
		fmt.Fprintf(&b, "  - id: C%d\n    parent_id: %s\n", i, parent)
		if messy && rapid.IntRange(0, 2).Draw(t, "otherhost") == 2 {
			b.WriteString("    filter:\n      url: \"other.org/*\"\n")
		}
		// an internal limit that is wrong on its own, under a parent that is fine: no strategy at all, or a unit
		// of its own that the engine does not know
		childUnit := unit
		if rapid.IntRange(0, 5).Draw(t, "child-own-fault") == 0 {
			tags = append(tags, "invalid-quota-field")
			if rapid.Bool().Draw(t, "no-strategy") {
				continue
			}
			childUnit = rapid.SampledFrom([]string{"week", "fortnight", "", "Minute"}).Draw(t, "child-unit")
		}
		b.WriteString("    strategy:\n")
		switch rapid.IntRange(0, 2).Draw(t, "childkind") {
		case 0:
			pcts := []string{"50", "100", "10"}
			if messy {
				pcts = []string{"50", "0", "150", "-5"}
			}
			fmt.Fprintf(&b, "      allocation_percentage: %s\n", rapid.SampledFrom(pcts).Draw(t, "pct"))
		case 1:
			fmt.Fprintf(&b, "      concurrent:\n        max_request_count: %s\n", num("ccmax"))
		default:
			fmt.Fprintf(&b, "      fixed_window:\n        max: %s\n        interval: %s\n        interval_unit: %s\n", num("cmax2"), num("cint"), childUnit)
		}
	}
	s := b.String()
	if strings.Contains(s, "abc") || strings.Contains(s, ": -") || strings.Contains(s, "fortnight") || strings.Contains(s, "Ghost") || strings.Contains(s, ": 0\n") || strings.Contains(s, ": \n") || strings.Contains(s, "150") {
		tags = append(tags, "invalid-quota-field")
	}
	return s, tags
}

func TestRandomConfigs(t *testing.T) {
	r := ev.New(t, "C05")
	rec = engine.Capture(0)
	defer rec.Stop()
	rapid.Check(t, func(t *rapid.T) {
		c := config{LogLevel: rapid.SampledFrom([]string{"", "", "", "error", "debug", "trace"}).Draw(t, "log-level")}
		haveQuota := rapid.IntRange(0, 2).Draw(t, "quota") != 0
		if haveQuota {
			q, tags := genQuotaFile(t)
			c.Quotas = map[string]string{"q.yaml": q}
			c.Tags = append(c.Tags, tags...)
		}
		// one to three flows; references go to any of the flows, so that chains and cycles of references that do
		// not pass through the flow being built occur as well (alpha -> beta -> gamma -> beta)
		nflows := rapid.SampledFrom([]int{1, 2, 2, 3, 3}).Draw(t, "nflows")
		names := []string{"alpha", "beta", "gamma"}[:nflows]
		for i, name := range names {
			others := []string{}
			for _, o := range names {
				if o != name || rapid.IntRange(0, 5).Draw(t, "self-"+name) == 0 {
					others = append(others, o)
				}
			}
			if nflows == 1 {
				others = nil
			}
			url := "h.com/p"
			if i > 0 {
				url = rapid.SampledFrom([]string{"h.com/p", "h.com/q", "h.com/*"}).Draw(t, "url-"+name)
			}
			f := genFlow(t, name, others, url, nflows > 1, haveQuota)
			// the flow's own filter may also constrain status codes, query parameters or headers (evaluated on
			// both directions, also for a response the gateway generates itself)
			f.FilterExtra = rapid.SampledFrom([]string{"", "", "  status_code: [200, 418]\n", "  status_code: [500]\n",
				"  query_params:\n    - key: q\n      value: \"1\"\n", "  headers:\n    - key: x-k\n      value: \"1\"\n",
				// shapes a hand-written file may well have: a condition written twice, list / map / null / numeric values
				// (the loader takes any YAML value; a value that is not a string matches nothing)
				"  headers:\n    - key: x-k\n      value: \"1\"\n    - key: x-k\n      value: \"1\"\n",
				"  headers:\n    - key: x-plan\n      value: [gold, silver]\n    - key: x-plan\n      value: [bronze]\n",
				"  query_params:\n    - key: q\n      value: {a: 1}\n    - key: q\n      value: {a: 2}\n",
				"  headers:\n    - key: x-k\n      value: null\n    - key: x-k\n      value: 1\n",
				"  method: [GET, GET]\n  status_code: [200, 200]\n"}).Draw(t, "filter-"+name)
			if f.FilterExtra != "" {
				c.Tags = append(c.Tags, "filter-with-further-constraints")
			}
			c.Flows = append(c.Flows, f)
		}
		// one configuration in four has a further flow file the gateway cannot use: not YAML at all, or YAML that
		// breaks a rule of the schema (the validator refuses such a directory, the running gateway skips the file)
		if rapid.IntRange(0, 3).Draw(t, "broken-file") == 0 {
			c.RawFlows = map[string]string{"zbroken.yaml": rapid.SampledFrom(brokenFlowFiles).Draw(t, "broken")}
			c.Tags = append(c.Tags, "unusable-flow-file")
		}
		for _, f := range c.Flows {
			for _, cn := range append(append([]fg.Conn{}, f.Req...), f.Resp...) {
				if cn.From.Proc == "Nope" || cn.To.Proc == "Nope" || cn.To.Flow == "ghostflow" {
					c.Tags = append(c.Tags, "dangling-reference")
				}
			}
		}
		if err := handle(r, c); err != nil {
			t.Fatalf("%s", r.Fail(c, "%v", err))
		}
	})
}

const brokenTail = `flow:
  request:
    - from:
        stream:
          name: globalStream
          at: start
      to:
        stream:
          name: globalStream
          at: end
  response:
    - from:
        stream:
          name: globalStream
          at: start
      to:
        stream:
          name: globalStream
          at: end
`

var brokenFlowFiles = []string{
	"name: [unclosed\n  - {",
	"just a sentence, no mapping\n",
	// no filter
	"name: broken\nprocessors: {}\n" + brokenTail,
	// no name
	"filter:\n  url: h.com/p\nprocessors: {}\n" + brokenTail,
	// a processor declared with an empty body
	"name: broken\nfilter:\n  url: h.com/p\nprocessors:\n  P:\n" + brokenTail,
	// a processor without its processor type
	"name: broken\nfilter:\n  url: h.com/p\nprocessors:\n  P:\n    parameters: []\n" + brokenTail,
	// a connection without `to`
	"name: broken\nfilter:\n  url: h.com/p\nprocessors: {}\nflow:\n  request:\n    - from:\n        stream:\n          name: globalStream\n          at: start\n  response: []\n",
	// a connection without `from`
	"name: broken\nfilter:\n  url: h.com/p\nprocessors: {}\nflow:\n  request:\n    - to:\n        stream:\n          name: globalStream\n          at: end\n  response: []\n",
	// no flow section at all
	"name: broken\nfilter:\n  url: h.com/p\nprocessors: {}\n",
	// a filter without a URL
	"name: broken\nfilter:\n  method: [GET]\nprocessors: {}\n" + brokenTail,
	// wrong types
	"name: broken\nfilter: h.com/p\nprocessors: []\nflow: 7\n",
}

// Plain regression checks for the two defects found on the pinned tree and repaired by fix: commits.
func TestRegressionFixedDefects(t *testing.T) {
	r := ev.New(t, "C05")
	rec = engine.Capture(0)
	defer rec.Stop()
	cases := []config{
		// two flows referencing each other: the validator overflowed its stack (fatal, not recoverable)
		{Flows: []fg.Flow{
			{Name: "alpha", URL: "h.com/p", Procs: []fg.Proc{mkProc("A0", "F")},
				Req:  []fg.Conn{{From: fg.StreamStart(), To: fg.End{Proc: "A0"}}, {From: fg.End{Proc: "A0", Cond: "hit"}, To: fg.End{Flow: "beta", At: "start"}}},
				Resp: []fg.Conn{{From: fg.StreamStart(), To: fg.StreamEnd()}}},
			{Name: "beta", URL: "h.com/p", Procs: []fg.Proc{mkProc("B0", "T")},
				Req:  []fg.Conn{{From: fg.StreamStart(), To: fg.End{Proc: "B0"}}, {From: fg.End{Proc: "B0"}, To: fg.End{Flow: "alpha", At: "start"}}},
				Resp: []fg.Conn{{From: fg.StreamStart(), To: fg.StreamEnd()}}},
		}},
		// a cycle hanging off an answering processor in a response direction with a valid root: accepted, then never returned
		{Flows: []fg.Flow{{Name: "uflow", URL: "h.com/p", Procs: []fg.Proc{mkProc("P0", "F"), mkProc("GA", "G"), mkProc("R0", "F"), mkProc("R1", "F")},
			Req: []fg.Conn{{From: fg.StreamStart(), To: fg.End{Proc: "P0"}}, {From: fg.End{Proc: "P0", Cond: "hit"}, To: fg.End{Proc: "GA"}}, {From: fg.End{Proc: "P0", Cond: "miss"}, To: fg.StreamEnd()}},
			Resp: []fg.Conn{{From: fg.StreamStart(), To: fg.End{Proc: "R1"}}, {From: fg.End{Proc: "R1", Cond: "hit"}, To: fg.StreamEnd()}, {From: fg.End{Proc: "GA"}, To: fg.End{Proc: "R0"}},
				{From: fg.End{Proc: "R0", Cond: "miss"}, To: fg.End{Proc: "R0"}}, {From: fg.End{Proc: "R0", Cond: "hit"}, To: fg.StreamEnd()}}}}},
		// the same without a root (reachable since early responses continue into rootless response directions)
		{Flows: []fg.Flow{{Name: "uflow", URL: "h.com/p", Procs: []fg.Proc{mkProc("P0", "F"), mkProc("GA", "G"), mkProc("R0", "F")},
			Req:  []fg.Conn{{From: fg.StreamStart(), To: fg.End{Proc: "P0"}}, {From: fg.End{Proc: "P0", Cond: "hit"}, To: fg.End{Proc: "GA"}}, {From: fg.End{Proc: "P0", Cond: "miss"}, To: fg.StreamEnd()}},
			Resp: []fg.Conn{{From: fg.End{Proc: "GA"}, To: fg.End{Proc: "R0"}}, {From: fg.End{Proc: "R0", Cond: "hit"}, To: fg.End{Proc: "R0"}}, {From: fg.End{Proc: "R0", Cond: "miss"}, To: fg.StreamEnd()}}}}},
	}
	for _, c := range cases {
		if err := handle(r, c); err != nil {
			t.Fatalf("%s", r.Fail(c, "%v", err))
		}
	}
}
