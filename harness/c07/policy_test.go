// C07, policy-mode unit: runner.DispatchOnRequest (whose fold loop runOnRequest is unexported) is driven with
// generated endpoint and global remedy lists made of API-key authentication remedies (header edits) and
// fixed_response remedies (early responses, or no-ops when the request does not ask for one).
package c07

import (
	"encoding/json"
	"fmt"
	"testing"

	"lunar/engine/actions"
	"lunar/engine/config"
	lunarMessages "lunar/engine/messages"
	"lunar/engine/runner"
	"lunar/engine/services"
	"lunar/engine/services/remedies"
	sharedConfig "lunar/shared-model/config"
	"lunar/toolkit-core/clock"

	"pgregory.net/rapid"

	"verif/harness/internal/ev"
	"verif/harness/internal/loglevel"
)

type polRemedy struct {
	Kind    string `json:"kind"` // auth | fixed | retry
	Account int    `json:"account,omitempty"`
	Status  int    `json:"status,omitempty"` // fixed: status of the answer
	From    int    `json:"from,omitempty"`   // retry: status range that asks for a retry
	To      int    `json:"to,omitempty"`
	Enabled bool   `json:"enabled"`
}

type polCase struct {
	Accounts []map[string]string `json:"accounts"` // account i: API-key tokens (header -> value)
	Endpoint []polRemedy         `json:"endpoint_remedies"`
	Global   []polRemedy         `json:"global_remedies"`
	AskEarly bool                `json:"request_asks_for_early_response"`
}

func genPolList(t *rapid.T, label string, base int) []polRemedy {
	n := rapid.IntRange(0, 3).Draw(t, label+"-n")
	var out []polRemedy
	auth, retry := false, false
	for i := 0; i < n; i++ {
		// a retry remedy is a no-op on requests; on the way back it adds its header to an early response
		// whose status lies in its range (the early response runs through the response-side remedies)
		if !retry && rapid.IntRange(0, 9).Draw(t, label+"-retry") < 3 {
			retry = true
			lo := rapid.SampledFrom([]int{400, base, base + 1, 500}).Draw(t, label+"-from")
			out = append(out, polRemedy{Kind: "retry", From: lo, To: lo + rapid.SampledFrom([]int{0, 1, 99}).Draw(t, label+"-span"), Enabled: rapid.IntRange(0, 9).Draw(t, label+"-en") > 0})
			continue
		}
		// the API-key mechanism memoises its headers per (method, endpoint): one authentication remedy per scope
		if !auth && rapid.IntRange(0, 9).Draw(t, label+"-kind") < 6 {
			auth = true
			out = append(out, polRemedy{Kind: "auth", Account: rapid.IntRange(0, 2).Draw(t, label+"-acct"), Enabled: rapid.IntRange(0, 9).Draw(t, label+"-en") > 0})
		} else {
			out = append(out, polRemedy{Kind: "fixed", Status: base + i, Enabled: rapid.IntRange(0, 9).Draw(t, label+"-en") > 0})
		}
	}
	return out
}

func genPolCase() *rapid.Generator[polCase] {
	return rapid.Custom(func(t *rapid.T) polCase {
		c := polCase{AskEarly: rapid.IntRange(0, 9).Draw(t, "early") < 4}
		for i := 0; i < 3; i++ {
			n := rapid.IntRange(0, 3).Draw(t, "tokens")
			m := map[string]string{}
			for j := 0; j < n; j++ {
				m[rapid.SampledFrom([]string{"x-a", "x-b", "x-c"}).Draw(t, "name")] = fmt.Sprintf("k%d-%d", i, rapid.IntRange(1, 2).Draw(t, "v"))
			}
			c.Accounts = append(c.Accounts, m)
		}
		c.Endpoint = genPolList(t, "ep", 410)
		c.Global = genPolList(t, "gl", 510)
		return c
	})
}

func (c polCase) remedies(list []polRemedy, prefix string) []sharedConfig.Remedy {
	var out []sharedConfig.Remedy
	for i, p := range list {
		r := sharedConfig.Remedy{Enabled: p.Enabled, Name: fmt.Sprintf("%s%d", prefix, i)}
		if p.Kind == "auth" {
			r.Config.Authentication = &sharedConfig.AuthConfig{Account: sharedConfig.AccountID(fmt.Sprintf("a%d", p.Account))}
		} else if p.Kind == "retry" {
			r.Config.Retry = &sharedConfig.RetryConfig{Attempts: 3, InitialCooldownSeconds: 1, CooldownMultiplier: 2,
				Conditions: sharedConfig.RetryConfigConditions{StatusCode: []sharedConfig.Range[int]{{From: p.From, To: p.To}}}}
		} else {
			r.Config.FixedResponse = &sharedConfig.FixedResponseConfig{StatusCode: p.Status}
		}
		out = append(out, r)
	}
	return out
}

func (c polCase) retryCovers(status int) bool {
	for _, l := range [][]polRemedy{c.Endpoint, c.Global} {
		for _, p := range l {
			if p.Kind == "retry" && p.Enabled && p.From <= status && status <= p.To {
				return true
			}
		}
	}
	return false
}

// foldPolicy is the statement applied to one execution order of the enabled remedies.
func (c polCase) foldPolicy(order []polRemedy) (early int, edits map[string]string) {
	edits = map[string]string{}
	for _, p := range order {
		if !p.Enabled {
			continue
		}
		switch p.Kind {
		case "fixed":
			if c.AskEarly && early == 0 {
				early = p.Status
			}
		case "auth":
			for k, v := range c.Accounts[p.Account] {
				edits[k] = v
			}
		}
	}
	return early, edits
}

func TestPolicyFoldThroughDispatcher(t *testing.T) {
	r := ev.New(t, "C07")
	rapid.Check(t, func(t *rapid.T) {
		c := genPolCase().Draw(t, "case")
		repr := func() string { b, _ := json.Marshal(c); return string(b) }
		level := loglevel.Gen().Draw(t, "log level")
		r.Class("log level " + level)
		defer loglevel.Set(level)()
		r.Case()
		pc := &sharedConfig.PoliciesConfig{Accounts: map[sharedConfig.AccountID]sharedConfig.Account{}}
		for i, toks := range c.Accounts {
			var hs []sharedConfig.Header
			for _, k := range sortedKeys(toks) {
				hs = append(hs, sharedConfig.Header{Name: k, Value: toks[k]})
			}
			pc.Accounts[sharedConfig.AccountID(fmt.Sprintf("a%d", i))] = sharedConfig.Account{
				Authentication: sharedConfig.Authentication{APIKey: &sharedConfig.APIKey{Tokens: hs}},
			}
		}
		pc.Global.Remedies = c.remedies(c.Global, "g")
		pc.Endpoints = []sharedConfig.EndpointConfig{{URL: "h.com/a", Method: "GET", Remedies: c.remedies(c.Endpoint, "e"), Diagnosis: []sharedConfig.Diagnosis{}}}
		tree, err := config.BuildEndpointPolicyTree(pc.Endpoints)
		if err != nil {
			t.Fatalf("%s", r.Fail(repr(), "harness: policy tree rejected: %v", err))
		}
		svc := &services.PoliciesServices{Remedies: services.RemedyPlugins{
			FixedResponsePlugin: remedies.NewFixedResponsePlugin(clock.NewRealClock()),
			AuthPlugin:          remedies.NewAuthPlugin(),
			RetryPlugin:         remedies.NewRetryPlugin(clock.NewRealClock()),
		}}
		hdr := map[string]string{"host": "h.com"}
		if c.AskEarly {
			hdr["early-response"] = "true"
		}
		acts, err := runner.DispatchOnRequest(lunarMessages.OnRequest{ID: "t", SequenceID: "t", Method: "GET", Scheme: "https", URL: "h.com/a", Path: "/a", Headers: hdr}, tree, pc, svc, nil)
		if err != nil {
			t.Fatalf("%s", r.Fail(repr(), "DispatchOnRequest: %v", err))
		}
		d := decode(acts)
		if d.dup != "" {
			t.Fatalf("%s", r.Fail(repr(), "encoding sets %q twice", d.dup))
		}
		// the statement fixes 'first' and 'later' only relative to the order in which the gateway runs the
		// remedies; endpoint-then-global and global-then-endpoint (each list in declared order) are accepted
		orders := [][]polRemedy{append(append([]polRemedy{}, c.Endpoint...), c.Global...), append(append([]polRemedy{}, c.Global...), c.Endpoint...)}
		var complaints []string
		conflict := false
		for _, o := range orders {
			early, edits := c.foldPolicy(o)
			complaint := ""
			gotEarly, _ := d.vars[actions.ReturnEarlyResponseActionName].(bool)
			switch {
			case early != 0:
				st, _ := d.vars[actions.StatusCodeActionName].(int)
				h, _ := parseDump(d.vars[actions.ResponseHeadersActionName])
				b, _ := bodyOf(d.vars[actions.ResponseBodyActionName])
				// the early response also runs through the response-side remedies: a retry remedy whose range
				// holds its status may add its own header (accepted, not demanded); nothing else may change
				if v, ok := h[remedies.LunarRetryAfterHeaderName]; ok && v != "" && c.retryCovers(early) {
					delete(h, remedies.LunarRetryAfterHeaderName)
				}
				if !gotEarly || st != early || b != "{\"message\": \"GO Lunar\"}" || !eqMap(h, map[string]string{"powered-by": "Lunar Interventions Inc."}) {
					complaint = fmt.Sprintf("want the first early response (status %d) unchanged, the proxy gets early=%v status=%d body=%q headers=%v", early, gotEarly, st, b, h)
				}
			case len(edits) == 0:
				_, mod := d.vars[actions.RequestHeadersActionName]
				if gotEarly || mod {
					complaint = fmt.Sprintf("every remedy produced a no-op but the proxy gets vars %v", keys(d.vars))
				}
			default:
				h, err := parseDump(d.vars[actions.RequestHeadersActionName])
				if gotEarly || err != nil {
					complaint = fmt.Sprintf("want header edits %v, the proxy gets vars %v (%v)", edits, keys(d.vars), err)
					break
				}
				for _, n := range e2eNames {
					if want, ok := edits[n]; ok && h[n] != want {
						complaint = fmt.Sprintf("want header edits %v (union, later edit wins), the proxy gets %v", edits, h)
					} else if _, present := h[n]; !ok && present {
						complaint = fmt.Sprintf("header %s was edited by no remedy but the proxy gets %v", n, h)
					}
				}
			}
			if complaint == "" {
				complaints = nil
				break
			}
			complaints = append(complaints, complaint)
		}
		// classification
		early, edits := c.foldPolicy(orders[0])
		nAuth, seen := 0, map[string]string{}
		for _, p := range orders[0] {
			if p.Enabled && p.Kind == "auth" {
				nAuth++
				for k, v := range c.Accounts[p.Account] {
					if o, ok := seen[k]; ok && o != v {
						conflict = true
					}
					seen[k] = v
				}
			}
		}
		if early != 0 && c.retryCovers(early) {
			r.Class("early response inside a retry range")
		}
		switch {
		case early != 0:
			r.Class("early")
		case len(edits) == 0:
			r.Class("noop")
		default:
			r.Class("modify")
		}
		if conflict || (early != 0 && len(edits) > 0) || (early == 0 && len(edits) > 0 && len(c.Endpoint)+len(c.Global) > nAuth) {
			// conflicting edits, an early response next to modifications, or no-ops next to a modification
			r.NonTrivial(repr(), func() any { return c })
		}
		if complaints != nil {
			t.Fatalf("%s", r.Fail(repr(), "endpoint-first reading: %s; global-first reading: %s", complaints[0], complaints[len(complaints)-1]))
		}
	})
}
