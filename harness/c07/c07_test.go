// C07 — combined actions: early response wins, header edits merge last-writer-wins.
package c07

import (
	"fmt"
	"reflect"
	"sort"
	"strings"
	"testing"

	"lunar/engine/actions"
	lunarMessages "lunar/engine/messages"
	"lunar/engine/routing"

	spoe "github.com/negasus/haproxy-spoe-go/action"
	"pgregory.net/rapid"

	"verif/harness/internal/ev"
	"verif/harness/internal/loglevel"
)

// ---- specification-side representation of a generated action -------------

type spec struct {
	Kind    string            `json:"kind"` // noop, hdr, mod, gen, early | noop, modresp, retry
	Headers map[string]string `json:"headers,omitempty"`
	Remove  []string          `json:"remove,omitempty"`
	Host    string            `json:"host,omitempty"`
	Path    string            `json:"path,omitempty"`
	Query   string            `json:"query,omitempty"`
	Body    string            `json:"body,omitempty"`
	Status  int               `json:"status,omitempty"`
}

func copyMap(m map[string]string) map[string]string {
	if m == nil {
		return nil
	}
	o := make(map[string]string, len(m))
	for k, v := range m {
		o[k] = v
	}
	return o
}

func (s spec) req() actions.ReqLunarAction {
	switch s.Kind {
	case "noop":
		return &actions.NoOpAction{}
	case "hdr":
		return &actions.ModifyHeadersAction{HeadersToSet: copyMap(s.Headers)}
	case "mod":
		return &actions.ModifyRequestAction{HeadersToSet: copyMap(s.Headers), Host: s.Host, Path: s.Path, QueryParams: s.Query, Body: s.Body}
	case "gen":
		return &actions.GenerateRequestAction{HeadersToSet: copyMap(s.Headers), HeadersToRemove: append([]string(nil), s.Remove...), Body: s.Body}
	case "early":
		return &actions.EarlyResponseAction{Status: s.Status, Body: s.Body, Headers: copyMap(s.Headers)}
	}
	panic("kind " + s.Kind)
}

func (s spec) resp() actions.RespLunarAction {
	switch s.Kind {
	case "noop":
		return &actions.NoOpAction{}
	case "modresp":
		return &actions.ModifyResponseAction{HeadersToSet: copyMap(s.Headers), Body: s.Body, Status: s.Status}
	case "retry":
		return &actions.RetryRequestAction{HeadersToSet: copyMap(s.Headers)}
	}
	panic("kind " + s.Kind)
}

// ---- the fold, exactly as getSPOEReqActions / runOnRequest perform it ------

func newOnRequest() lunarMessages.OnRequest {
	return lunarMessages.OnRequest{ID: "t", Method: "GET", Scheme: "https", URL: "h.com/a", Path: "/a", Headers: map[string]string{"host": "h.com"}}
}

func foldReq(in []actions.ReqLunarAction) actions.ReqLunarAction {
	args := newOnRequest()
	var p actions.ReqLunarAction = &actions.NoOpAction{}
	for _, a := range in {
		a.EnsureRequestIsUpdated(&args)
		p = p.ReqPrioritize(a)
	}
	p.EnsureRequestIsUpdated(&args)
	return p
}

func foldResp(in []actions.RespLunarAction) actions.RespLunarAction {
	args := lunarMessages.OnResponse{ID: "t", Method: "GET", URL: "h.com/a", Status: 200, Headers: map[string]string{}}
	var p actions.RespLunarAction = &actions.NoOpAction{}
	for _, a := range in {
		a.EnsureResponseIsUpdated(&args)
		p = p.RespPrioritize(a)
	}
	p.EnsureResponseIsUpdated(&args)
	return p
}

// ---- oracle helpers -------------------------------------------------------

func unionLaterWins(seq []spec) map[string]string {
	u := map[string]string{}
	for _, s := range seq {
		if s.Kind == "noop" || s.Kind == "early" {
			continue
		}
		for k, v := range s.Headers {
			u[k] = v
		}
	}
	return u
}

func eqMap(a, b map[string]string) bool {
	if len(a) != len(b) {
		return false
	}
	for k, v := range a {
		if w, ok := b[k]; !ok || w != v {
			return false
		}
	}
	return true
}

type decoded struct {
	vars map[string]any
	dup  string
}

func decode(as spoe.Actions) decoded {
	d := decoded{vars: map[string]any{}}
	for _, a := range as {
		if a.Type != spoe.TypeSetVar {
			d.dup = "non-setvar action " + a.Name
		}
		if _, ok := d.vars[a.Name]; ok {
			d.dup = a.Name
		}
		d.vars[a.Name] = a.Value
	}
	return d
}

// snapshotActions renders every value of an encoding (byte slices by content).
func snapshotActions(as spoe.Actions) string {
	var b strings.Builder
	for _, a := range as {
		switch v := a.Value.(type) {
		case []byte:
			fmt.Fprintf(&b, "%s=%q;", a.Name, string(v))
		default:
			fmt.Fprintf(&b, "%s=%v;", a.Name, v)
		}
	}
	return b.String()
}

// parseDump decodes the line-based header block the proxy's Lua side splits on
// newlines and on the first colon.
func parseDump(v any) (map[string]string, error) {
	s, ok := v.(string)
	if !ok {
		return nil, fmt.Errorf("headers var is %T, not string", v)
	}
	out := map[string]string{}
	for _, line := range strings.Split(s, "\n") {
		if line == "" {
			continue
		}
		i := strings.IndexByte(line, ':')
		if i < 0 {
			return nil, fmt.Errorf("header line without colon: %q", line)
		}
		k, val := line[:i], line[i+1:]
		if _, dup := out[k]; dup {
			return nil, fmt.Errorf("duplicate header line %q", k)
		}
		out[k] = val
	}
	return out, nil
}

func bodyOf(v any) (string, bool) {
	switch b := v.(type) {
	case []byte:
		return string(b), true
	case string:
		return b, true
	}
	return "", false
}

func checkReq(seq []spec) error {
	in := make([]actions.ReqLunarAction, len(seq))
	for i, s := range seq {
		in[i] = s.req()
	}
	if err := checkReqOn(seq, in); err != nil {
		return err
	}
	return handlerAgreesReq(seq)
}

// sameEncoding compares two encodings as the proxy reads them: the same variables, header blocks as name/value
// sets (their line order follows map iteration), everything else by content.
func sameEncoding(a, b spoe.Actions) error {
	da, db := decode(a), decode(b)
	if da.dup != "" {
		return fmt.Errorf("encoding sets %q twice / unexpected action", da.dup)
	}
	if len(da.vars) != len(db.vars) {
		return fmt.Errorf("variables %v, the fold judged above gives %v", keys(da.vars), keys(db.vars))
	}
	for name, va := range da.vars {
		vb, ok := db.vars[name]
		if !ok {
			return fmt.Errorf("variables %v, the fold judged above gives %v", keys(da.vars), keys(db.vars))
		}
		switch name {
		case actions.RequestHeadersActionName, actions.ResponseHeadersActionName, actions.RetryHeadersActionName:
			ha, ea := parseDump(va)
			hb, eb := parseDump(vb)
			if ea != nil || eb != nil {
				return fmt.Errorf("%s: %v / %v", name, ea, eb)
			}
			if !eqMap(ha, hb) {
				return fmt.Errorf("%s carries %v, the fold judged above gives %v", name, ha, hb)
			}
		default:
			sa, oka := bodyOf(va)
			sb, okb := bodyOf(vb)
			if oka != okb || (oka && sa != sb) || (!oka && !reflect.DeepEqual(va, vb)) {
				return fmt.Errorf("%s is %.200v, the fold judged above gives %.200v", name, va, vb)
			}
		}
	}
	return nil
}

// handlerAgreesReq: the loop the gateway runs in flows mode (routing.getSPOEReqActions, reached through the
// verif-tagged export) folds fresh action objects of the same content; what it hands to the proxy must be what
// the fold judged by checkReqOn hands over - for every kind of action, also those no processor emits today.
func handlerAgreesReq(seq []spec) error {
	a, b := make([]actions.ReqLunarAction, len(seq)), make([]actions.ReqLunarAction, len(seq))
	for i, s := range seq {
		a[i], b[i] = s.req(), s.req()
	}
	if err := sameEncoding(routing.SPOEReqActionsForVerif(newOnRequest(), a), foldReq(b).ReqToSpoeActions()); err != nil {
		return fmt.Errorf("the handler's own loop (getSPOEReqActions) over the same actions: %v", err)
	}
	return nil
}

func handlerAgreesResp(seq []spec) error {
	a, b := make([]actions.RespLunarAction, len(seq)), make([]actions.RespLunarAction, len(seq))
	for i, s := range seq {
		a[i], b[i] = s.resp(), s.resp()
	}
	args := lunarMessages.OnResponse{ID: "t", Method: "GET", URL: "h.com/a", Status: 200, Headers: map[string]string{}}
	if err := sameEncoding(routing.SPOERespActionsForVerif(args, a), foldResp(b).RespToSpoeActions()); err != nil {
		return fmt.Errorf("the handler's own loop (getSPOERespActions) over the same actions: %v", err)
	}
	return nil
}

// checkReqOn judges the fold of the given action objects, whose content is described by seq.
func checkReqOn(seq []spec, in []actions.ReqLunarAction) error {
	res := foldReq(in)
	if res == nil {
		return fmt.Errorf("fold produced a nil action")
	}
	firstEarly := -1
	allNoop := true
	for i, s := range seq {
		if s.Kind == "early" && firstEarly < 0 {
			firstEarly = i
		}
		if s.Kind != "noop" {
			allNoop = false
		}
	}
	acts := res.ReqToSpoeActions()
	before := snapshotActions(acts)
	// the SPOE library writes the reply out after the handler has returned, and other transactions are encoded in
	// the meantime: the encoding of this one must not change when the next one is produced
	_ = (&actions.ModifyRequestAction{HeadersToSet: map[string]string{"x-other": "transaction"}, Host: "other.test", Path: "/other", QueryParams: "o=1",
		Body: strings.Repeat("OTHER-TRANSACTION ", 40)}).ReqToSpoeActions()
	_ = (&actions.GenerateRequestAction{HeadersToSet: map[string]string{"x-other": "transaction"}, Body: strings.Repeat("other-transaction ", 300)}).ReqToSpoeActions()
	_ = (&actions.EarlyResponseAction{Status: 599, Body: strings.Repeat("OTHER ", 100), Headers: map[string]string{"x-other": "transaction"}}).ReqToSpoeActions()
	if after := snapshotActions(acts); after != before {
		return fmt.Errorf("the encoding handed to the proxy changed when another transaction was encoded after it: before %.200q, after %.200q", before, after)
	}
	enc := decode(acts)
	if enc.dup != "" {
		return fmt.Errorf("encoding sets %q twice / unexpected action", enc.dup)
	}
	switch {
	case firstEarly >= 0:
		want := seq[firstEarly]
		got, ok := res.(*actions.EarlyResponseAction)
		if !ok {
			return fmt.Errorf("an early response was produced at %d but the result is %T", firstEarly, res)
		}
		if got != in[firstEarly] {
			// not the same object: then it must at least be an unchanged copy
			if got.Status != want.Status || got.Body != want.Body || !eqMap(got.Headers, want.Headers) {
				return fmt.Errorf("result is not the first early response (want #%d %v, got %+v)", firstEarly, want, *got)
			}
		}
		if got.Status != want.Status || got.Body != want.Body || !eqMap(got.Headers, want.Headers) {
			return fmt.Errorf("first early response was changed: want %v got %+v", want, *got)
		}
		// encoding
		if v, _ := enc.vars[actions.ReturnEarlyResponseActionName].(bool); !v {
			return fmt.Errorf("encoding lacks %s=true", actions.ReturnEarlyResponseActionName)
		}
		if st, ok := enc.vars[actions.StatusCodeActionName].(int); !ok || st != want.Status {
			return fmt.Errorf("encoded status %v, want %d", enc.vars[actions.StatusCodeActionName], want.Status)
		}
		if b, ok := bodyOf(enc.vars[actions.ResponseBodyActionName]); !ok || b != want.Body {
			return fmt.Errorf("encoded body %q, want %q", b, want.Body)
		}
		h, err := parseDump(enc.vars[actions.ResponseHeadersActionName])
		if err != nil {
			return err
		}
		if !eqMap(h, want.Headers) {
			return fmt.Errorf("encoded headers %v, want %v", h, want.Headers)
		}
		if len(enc.vars) != 4 {
			return fmt.Errorf("early response encoding carries extra vars: %v", keys(enc.vars))
		}
	case allNoop:
		if _, ok := res.(*actions.NoOpAction); !ok {
			return fmt.Errorf("all inputs are no-ops but result is %T", res)
		}
		if len(enc.vars) != 0 {
			return fmt.Errorf("no-op encodes vars %v", keys(enc.vars))
		}
	default:
		want := unionLaterWins(seq)
		var got map[string]string
		var body, path, host, query string
		switch r := res.(type) {
		case *actions.ModifyHeadersAction:
			got = r.HeadersToSet
		case *actions.ModifyRequestAction:
			got, body, path, host, query = r.HeadersToSet, r.Body, r.Path, r.Host, r.QueryParams
		case *actions.GenerateRequestAction:
			got, body = r.HeadersToSet, r.Body
		default:
			return fmt.Errorf("non-noop modifications present but result is %T", res)
		}
		if !eqMap(got, want) {
			return fmt.Errorf("header edits %v, want union-later-wins %v", got, want)
		}
		// nothing invented
		okBody, okPath, okHost, okQuery := body == "", path == "", host == "", query == ""
		for _, s := range seq {
			okBody = okBody || s.Body == body
			okPath = okPath || s.Path == path
			okHost = okHost || s.Host == host
			okQuery = okQuery || s.Query == query
		}
		if !(okBody && okPath && okHost && okQuery) {
			return fmt.Errorf("result carries an invented field body=%q path=%q host=%q query=%q", body, path, host, query)
		}
		h, err := parseDump(enc.vars[actions.RequestHeadersActionName])
		if err != nil {
			return err
		}
		if !eqMap(h, got) {
			return fmt.Errorf("encoded request headers %v, action has %v", h, got)
		}
		if _, early := enc.vars[actions.ReturnEarlyResponseActionName]; early {
			return fmt.Errorf("modification encoded as early response")
		}
		if b, present := enc.vars[actions.RequestBodyActionName]; present {
			if s, ok := bodyOf(b); !ok || s != body {
				return fmt.Errorf("encoded request body %q, action has %q", s, body)
			}
		} else if body != "" {
			return fmt.Errorf("action body %q missing from encoding", body)
		}
		for name, val := range map[string]string{actions.RequestPathActionName: path, actions.RequestHostActionName: host, actions.RequestQueryParamsActionName: query} {
			if e, present := enc.vars[name]; present {
				if s, _ := e.(string); s != val {
					return fmt.Errorf("encoded %s %q, action has %q", name, s, val)
				}
			} else if val != "" {
				return fmt.Errorf("action %s %q missing from encoding", name, val)
			}
		}
	}
	return nil
}

func keys(m map[string]any) []string {
	out := []string{}
	for k := range m {
		out = append(out, k)
	}
	sort.Strings(out)
	return out
}

func respKindOf(a actions.RespLunarAction) string {
	switch a.(type) {
	case *actions.NoOpAction:
		return "noop"
	case *actions.ModifyResponseAction:
		return "modresp"
	case *actions.RetryRequestAction:
		return "retry"
	}
	return fmt.Sprintf("%T", a)
}

func stripNoops(seq []spec) []spec {
	out := []spec{}
	for _, s := range seq {
		if s.Kind != "noop" {
			out = append(out, s)
		}
	}
	return out
}

type respView struct {
	Kind    string
	Headers map[string]string
	Body    string
	Status  int
}

func viewResp(a actions.RespLunarAction) respView {
	switch r := a.(type) {
	case *actions.ModifyResponseAction:
		return respView{"modresp", copyMap(r.HeadersToSet), r.Body, r.Status}
	case *actions.RetryRequestAction:
		return respView{"retry", copyMap(r.HeadersToSet), "", 0}
	}
	return respView{Kind: respKindOf(a)}
}

func runResp(seq []spec) actions.RespLunarAction {
	in := make([]actions.RespLunarAction, len(seq))
	for i, s := range seq {
		in[i] = s.resp()
	}
	return foldResp(in)
}

func checkResp(seq []spec) error {
	in := make([]actions.RespLunarAction, len(seq))
	for i, s := range seq {
		in[i] = s.resp()
	}
	if err := checkRespOn(seq, in); err != nil {
		return err
	}
	return handlerAgreesResp(seq)
}

// checkRespOn judges the fold of the given action objects, whose content is described by seq.
func checkRespOn(seq []spec, in []actions.RespLunarAction) error {
	res := foldResp(in)
	if res == nil {
		return fmt.Errorf("fold produced a nil action")
	}
	v := viewResp(res)
	kinds := map[string]bool{}
	for _, s := range seq {
		kinds[s.Kind] = true
	}
	nonNoop := stripNoops(seq)
	if len(nonNoop) == 0 {
		if v.Kind != "noop" {
			return fmt.Errorf("all inputs are no-ops but result is %s", v.Kind)
		}
	} else {
		if v.Kind == "noop" {
			return fmt.Errorf("a no-op displaced a modification or retry: %v", seq)
		}
		if !kinds[v.Kind] {
			return fmt.Errorf("result kind %s is not among the produced kinds", v.Kind)
		}
		// metamorphic: no-ops are neutral
		w := viewResp(runResp(nonNoop))
		if !reflect.DeepEqual(normView(v), normView(w)) {
			return fmt.Errorf("no-ops changed the outcome: with %+v without %+v", v, w)
		}
		// every header of the result comes from an input edit of that name
		for k, val := range v.Headers {
			found := false
			for _, s := range nonNoop {
				if x, ok := s.Headers[k]; ok && x == val {
					found = true
				}
			}
			if !found {
				return fmt.Errorf("result header %s=%q was not produced by any action", k, val)
			}
		}
		onlyMod, onlyRetry := true, true
		for _, s := range nonNoop {
			onlyMod = onlyMod && s.Kind == "modresp"
			onlyRetry = onlyRetry && s.Kind == "retry"
		}
		if onlyMod || onlyRetry {
			want := unionLaterWins(nonNoop)
			if !eqMap(v.Headers, want) {
				return fmt.Errorf("%s-only sequence: header edits %v, want union-later-wins %v", v.Kind, v.Headers, want)
			}
		}
		if v.Kind == "modresp" {
			ok := false
			for _, s := range nonNoop {
				if s.Kind == "modresp" && s.Body == v.Body && s.Status == v.Status {
					ok = true
				}
			}
			if !ok {
				return fmt.Errorf("resulting status/body (%d,%q) do not come from one produced modification", v.Status, v.Body)
			}
		}
	}
	// encoding
	racts := res.RespToSpoeActions()
	rbefore := snapshotActions(racts)
	_ = (&actions.ModifyResponseAction{HeadersToSet: map[string]string{"x-other": "transaction"}, Body: strings.Repeat("OTHER-TRANSACTION ", 40), Status: 599}).RespToSpoeActions()
	_ = (&actions.RetryRequestAction{HeadersToSet: map[string]string{"x-other": "transaction"}}).RespToSpoeActions()
	if rafter := snapshotActions(racts); rafter != rbefore {
		return fmt.Errorf("the encoding handed to the proxy changed when another transaction was encoded after it: before %.200q, after %.200q", rbefore, rafter)
	}
	enc := decode(racts)
	if enc.dup != "" {
		return fmt.Errorf("encoding sets %q twice / unexpected action", enc.dup)
	}
	switch v.Kind {
	case "noop":
		if len(enc.vars) != 0 {
			return fmt.Errorf("no-op encodes vars %v", keys(enc.vars))
		}
	case "modresp":
		if b, _ := enc.vars[actions.ModifyResponseActionName].(bool); !b {
			return fmt.Errorf("encoding lacks modify_response=true")
		}
		h, err := parseDump(enc.vars[actions.ResponseHeadersActionName])
		if err != nil {
			return err
		}
		if !eqMap(h, v.Headers) {
			return fmt.Errorf("encoded response headers %v, action has %v", h, v.Headers)
		}
		if raw, present := enc.vars[actions.ResponseBodyActionName]; !present {
			return fmt.Errorf("the encoding carries no %s at all (variables %v): the proxy keeps the provider's body, the action's body is %q", actions.ResponseBodyActionName, keys(enc.vars), v.Body)
		} else if b, ok := bodyOf(raw); !ok || b != v.Body {
			return fmt.Errorf("encoded body %q (%T), action has %q", b, raw, v.Body)
		}
		if st, ok := enc.vars[actions.StatusCodeActionName].(int); !ok || st != v.Status {
			return fmt.Errorf("encoded status %v, action has %d", enc.vars[actions.StatusCodeActionName], v.Status)
		}
	case "retry":
		if b, _ := enc.vars[actions.RetryRequestActionName].(bool); !b {
			return fmt.Errorf("encoding lacks retry_request=true")
		}
		h, err := parseDump(enc.vars[actions.RetryHeadersActionName])
		if err != nil {
			return err
		}
		if !eqMap(h, v.Headers) {
			return fmt.Errorf("encoded retry headers %v, action has %v", h, v.Headers)
		}
	}
	return nil
}

func normView(v respView) respView {
	if len(v.Headers) == 0 {
		v.Headers = nil
	}
	return v
}

// ---- non-triviality -------------------------------------------------------

func nonTrivial(seq []spec) bool {
	nn := 0
	seen := map[string]string{}
	conflict := false
	for i, s := range seq {
		if s.Kind == "early" && i > 0 {
			return true
		}
		if s.Kind == "noop" {
			continue
		}
		nn++
		for k, v := range s.Headers {
			if w, ok := seen[k]; ok && w != v {
				conflict = true
			}
			seen[k] = v
		}
	}
	return nn >= 2 && conflict
}

// ---- generators -----------------------------------------------------------

var namePool = []string{"x-a", "x-b", "x-c"}

func genHeaders() *rapid.Generator[map[string]string] {
	name := rapid.OneOf(rapid.SampledFrom(namePool), rapid.StringMatching(`[a-zA-Z][a-zA-Z0-9\-_]{0,8}`))
	// visible ASCII plus inner blanks, no CR/LF (the line-based encoding cannot carry them)
	value := rapid.OneOf(rapid.SampledFrom([]string{"1", "2", "3", ""}), rapid.StringMatching(`[!-~]([ -~]{0,10}[!-~])?`))
	return rapid.MapOfN(name, value, 0, 4)
}

func genStr() *rapid.Generator[string] {
	return rapid.OneOf(rapid.Just(""), rapid.SampledFrom([]string{"/p", "h2.com", "a=1", "body"}), rapid.StringMatching(`[ -~]{0,12}`))
}

// genBody: mostly short texts, sometimes a body around and beyond the sizes at which buffers, log lines and
// frames are cut (2 KiB, 4 KiB, 64 KiB), with multi-byte characters so that a cut can fall inside one
func genBody() *rapid.Generator[string] {
	return rapid.Custom(func(t *rapid.T) string {
		if rapid.IntRange(0, 5).Draw(t, "big") != 0 {
			return genStr().Draw(t, "s")
		}
		n := rapid.SampledFrom([]int{255, 256, 1023, 1024, 2047, 2048, 2049, 4095, 4097, 5000, 65535, 65537, 70000}).Draw(t, "size")
		unit := rapid.SampledFrom([]string{"x", "{\"k\":\"v\"},", "é", "日本"}).Draw(t, "unit")
		b := strings.Repeat(unit, n/len(unit)+1)
		return b[:n]
	})
}

func genReqSpec() *rapid.Generator[spec] {
	return rapid.Custom(func(t *rapid.T) spec {
		k := rapid.SampledFrom([]string{"noop", "hdr", "hdr", "mod", "mod", "gen", "early"}).Draw(t, "kind")
		s := spec{Kind: k}
		switch k {
		case "hdr":
			s.Headers = genHeaders().Draw(t, "h")
		case "mod":
			s.Headers = genHeaders().Draw(t, "h")
			s.Host, s.Path, s.Query, s.Body = genStr().Draw(t, "host"), genStr().Draw(t, "path"), genStr().Draw(t, "query"), genBody().Draw(t, "body")
		case "gen":
			s.Headers = genHeaders().Draw(t, "h")
			s.Remove = rapid.SliceOfN(rapid.SampledFrom(append([]string{"host", "x-z"}, namePool...)), 0, 2).Draw(t, "rm")
			s.Body = genBody().Draw(t, "body")
		case "early":
			s.Headers = genHeaders().Draw(t, "h")
			s.Body = genBody().Draw(t, "body")
			s.Status = rapid.SampledFrom([]int{200, 204, 403, 429, 500, 503}).Draw(t, "status")
		}
		return s
	})
}

func genRespSpec() *rapid.Generator[spec] {
	return rapid.Custom(func(t *rapid.T) spec {
		k := rapid.SampledFrom([]string{"noop", "modresp", "modresp", "retry"}).Draw(t, "kind")
		s := spec{Kind: k}
		switch k {
		case "modresp":
			s.Headers = genHeaders().Draw(t, "h")
			s.Body = genBody().Draw(t, "body")
			s.Status = rapid.SampledFrom([]int{200, 201, 404, 429, 500}).Draw(t, "status")
		case "retry":
			s.Headers = genHeaders().Draw(t, "h")
		}
		return s
	})
}

// ---- tests ----------------------------------------------------------------

func TestRequestFoldRandom(t *testing.T) {
	r := ev.New(t, "C07")
	rapid.Check(t, func(t *rapid.T) {
		seq := rapid.SliceOfN(genReqSpec(), 1, 6).Draw(t, "actions")
		level := loglevel.Gen().Draw(t, "log level")
		r.Class("log level " + level)
		defer loglevel.Set(level)()
		r.Case()
		r.Class(fmt.Sprintf("len=%d", len(seq)))
		if nonTrivial(seq) {
			r.NonTrivial(ev.JSON(seq), func() any { return map[string]any{"side": "request", "actions": seq} })
		}
		if err := checkReq(seq); err != nil {
			t.Fatalf("%s", r.Fail(map[string]any{"side": "request", "actions": seq}, "%v", err))
		}
	})
}

func TestResponseFoldRandom(t *testing.T) {
	r := ev.New(t, "C07")
	rapid.Check(t, func(t *rapid.T) {
		seq := rapid.SliceOfN(genRespSpec(), 1, 6).Draw(t, "actions")
		level := loglevel.Gen().Draw(t, "log level")
		r.Class("log level " + level)
		defer loglevel.Set(level)()
		r.Case()
		r.Class(fmt.Sprintf("len=%d", len(seq)))
		if nonTrivial(seq) {
			r.NonTrivial(ev.JSON(seq), func() any { return map[string]any{"side": "response", "actions": seq} })
		}
		if err := checkResp(seq); err != nil {
			t.Fatalf("%s", r.Fail(map[string]any{"side": "response", "actions": seq}, "%v", err))
		}
	})
}

// Bounded-exhaustive: every sequence of kinds up to length 3 (request) / 4
// (response), each position carrying one of three fixed, mutually conflicting
// header maps.
var fixedHeaders = []map[string]string{
	{"x-a": "1", "x-b": "1"},
	{"x-a": "2", "x-c": "2"},
	{"x-b": "3", "x-c": "3", "x-a": "3"},
}

func enumSeqs(kinds []string, maxLen int, mk func(kind string, pos int) spec, visit func([]spec)) {
	var rec func(cur []spec)
	rec = func(cur []spec) {
		visit(cur)
		if len(cur) == maxLen {
			return
		}
		for _, k := range kinds {
			for v := 0; v < 2; v++ { // two header variants per position
				if k == "noop" && v == 1 {
					continue
				}
				s := mk(k, (len(cur)+v)%3)
				rec(append(append([]spec(nil), cur...), s))
			}
		}
	}
	rec(nil)
}

func TestRequestFoldExhaustive(t *testing.T) {
	r := ev.New(t, "C07")
	r.SetExhaustive(true)
	mk := func(kind string, i int) spec {
		s := spec{Kind: kind}
		if kind == "noop" {
			return s
		}
		s.Headers = copyMap(fixedHeaders[i])
		switch kind {
		case "mod":
			s.Path, s.Body = fmt.Sprintf("/p%d", i), fmt.Sprintf("b%d", i)
		case "gen":
			s.Body, s.Remove = fmt.Sprintf("g%d", i), []string{"x-z"}
		case "early":
			s.Status, s.Body = 400+i, fmt.Sprintf("e%d", i)
		}
		return s
	}
	enumSeqs([]string{"noop", "hdr", "mod", "gen", "early"}, 3, mk, func(seq []spec) {
		r.Case()
		if nonTrivial(seq) {
			r.NonTrivial(ev.JSON(seq), func() any { return map[string]any{"side": "request", "actions": seq} })
		}
		if err := checkReq(seq); err != nil {
			t.Fatalf("%s", r.Fail(map[string]any{"side": "request", "actions": seq}, "%v", err))
		}
	})
}

func TestResponseFoldExhaustive(t *testing.T) {
	r := ev.New(t, "C07")
	r.SetExhaustive(true)
	mk := func(kind string, i int) spec {
		s := spec{Kind: kind}
		if kind == "noop" {
			return s
		}
		s.Headers = copyMap(fixedHeaders[i])
		if kind == "modresp" {
			s.Status, s.Body = 200+i, fmt.Sprintf("r%d", i)
		}
		return s
	}
	enumSeqs([]string{"noop", "modresp", "retry"}, 4, mk, func(seq []spec) {
		r.Case()
		if nonTrivial(seq) {
			r.NonTrivial(ev.JSON(seq), func() any { return map[string]any{"side": "response", "actions": seq} })
		}
		if err := checkResp(seq); err != nil {
			t.Fatalf("%s", r.Fail(map[string]any{"side": "response", "actions": seq}, "%v", err))
		}
	})
}
