// C07, end-to-end unit: the fold loops getSPOEReqActions / getSPOERespActions are unexported and the other
// units re-state them. Here generated flows (chains of TransformAPICall header edits, Filters that produce
// no-ops and an optional GenerateResponse) are loaded by the real HandlingDataManager and driven through
// routing.Handler with SPOE messages; the SPOE actions handed back to the proxy are decoded and compared
// with the statement: first early response unchanged, otherwise the union of header edits with the later
// edit winning, and no action at all when every processor produced a no-op.
package c07

import (
	"context"
	"encoding/json"
	"fmt"
	"io"
	"net"
	"net/http"
	"net/http/httptest"
	"os"
	"path/filepath"
	"sort"
	"strings"
	"sync"
	"testing"
	"time"

	"lunar/engine/actions"
	"lunar/engine/routing"
	contextmanager "lunar/toolkit-core/context-manager"
	"lunar/toolkit-core/logging"

	spoe "github.com/negasus/haproxy-spoe-go/action"
	"github.com/negasus/haproxy-spoe-go/message"
	"github.com/negasus/haproxy-spoe-go/payload/kv"
	"github.com/negasus/haproxy-spoe-go/request"
	"github.com/rs/zerolog"
	"pgregory.net/rapid"

	"verif/harness/internal/engine"
	"verif/harness/internal/ev"
	"verif/harness/internal/loglevel"
)

type okTransport struct{}

func (okTransport) RoundTrip(req *http.Request) (*http.Response, error) {
	return &http.Response{StatusCode: 200, Status: "200 OK", Body: io.NopCloser(strings.NewReader("{}")), Header: http.Header{}, Request: req}, nil
}

var (
	e2eOnce    sync.Once
	e2eErr     error
	e2eRoot    string
	e2eMux     *http.ServeMux
	e2eHandler routing.MessageHandler
)

func e2eSetup() {
	e2eOnce.Do(func() {
		base := os.Getenv("VERIF_SCRATCH")
		if base == "" {
			base = os.TempDir()
		}
		d, err := os.MkdirTemp(base, "c07-")
		if err != nil {
			e2eErr = err
			return
		}
		e2eRoot = d
		for _, sub := range []string{"flows", "quotas", "path_params", "state"} {
			os.MkdirAll(filepath.Join(d, sub), 0o755)
		}
		metrics, _ := os.ReadFile(filepath.Join(engine.Repo(), "proxy/metrics.yaml"))
		os.WriteFile(filepath.Join(d, "metrics_default.yaml"), metrics, 0o644)
		for k, v := range map[string]string{
			"LUNAR_STREAMS_ENABLED":              "true",
			"TENANT_NAME":                        "verif",
			"LUNAR_PROXY_FLOW_DIRECTORY":         filepath.Join(d, "flows"),
			"LUNAR_PROXY_QUOTAS_DIRECTORY":       filepath.Join(d, "quotas"),
			"LUNAR_FLOWS_PATH_PARAM_DIR":         filepath.Join(d, "path_params"),
			"LUNAR_PROXY_CONFIG":                 filepath.Join(d, "gateway_config.yaml"),
			"LUNAR_PROXY_METRICS_CONFIG":         filepath.Join(d, "metrics_user.yaml"),
			"LUNAR_PROXY_METRICS_CONFIG_DEFAULT": filepath.Join(d, "metrics_default.yaml"),
			"DISCOVERY_STATE_LOCATION":           filepath.Join(d, "state", "discovery.json"),
			"REMEDY_STATE_LOCATION":              filepath.Join(d, "state", "remedy.json"),
			"LUNAR_FLOWS_PATH_PARAM_CONFIG":      filepath.Join(d, "state", "path_param_conf.yaml"),
		} {
			os.Setenv(k, v)
		}
		engine.Setup()
		http.DefaultTransport = okTransport{}
		if ln, err := net.Listen("tcp", "127.0.0.1:5140"); err == nil {
			go func() {
				for {
					c, err := ln.Accept()
					if err != nil {
						return
					}
					go io.Copy(io.Discard, c)
				}
			}()
		}
		e2eErr = func() (err error) {
			defer func() {
				if r := recover(); r != nil {
					err = fmt.Errorf("panic in manager setup: %v", r)
				}
			}()
			tw := logging.ConfigureLogger("lunar-engine", false, contextmanager.Get().GetClock())
			if os.Getenv("VERIF_LOG") == "" {
				zerolog.SetGlobalLevel(zerolog.Disabled)
			}
			data := routing.NewHandlingDataManager(10*time.Second, nil)
			if err := data.Setup(tw); err != nil {
				return err
			}
			e2eMux = http.NewServeMux()
			data.SetHandleRoutes(e2eMux)
			e2eHandler = routing.Handler(data)
			return nil
		}()
	})
}

// ---- generated configuration ------------------------------------------------------------------------

type e2eProc struct {
	Kind    string            `json:"kind"`              // set | nop | gen
	Headers map[string]string `json:"headers,omitempty"` // set: edits; gen: headers of the answer
	Status  int               `json:"status,omitempty"`
	Body    string            `json:"body,omitempty"`
}

type e2eFlow struct {
	Req  []e2eProc `json:"request"`
	Resp []e2eProc `json:"response"`
	// Fan: further answering processors that hang on the same connection source as the chain's answering
	// processor, behind it (a fan-out): the engine runs such siblings too, so the request side produces several
	// early responses - the first one, the chain's, is the answer
	Fan []e2eProc `json:"fan_out_of_further_answering_processors,omitempty"`
	// Bare: the transaction's frames carry no header at all - "empty" = the headers argument is the empty text,
	// "missing" = the frames have no headers argument (an HTTP/1.0 request without Host, a response without header
	// lines); the header edits of the flow must reach the proxy all the same
	Bare string `json:"frames_without_headers,omitempty"`
}

type e2eCase struct {
	Flows []e2eFlow `json:"flows"`
}

var e2eNames = []string{"x-a", "x-b", "x-c"}

func genE2EProc(allowGen bool) *rapid.Generator[e2eProc] {
	return rapid.Custom(func(t *rapid.T) e2eProc {
		k := rapid.IntRange(0, 9).Draw(t, "kind")
		switch {
		case k < 6:
			n := rapid.IntRange(1, 2).Draw(t, "n")
			h := map[string]string{}
			for i := 0; i < n; i++ {
				h[rapid.SampledFrom(e2eNames).Draw(t, "name")] = rapid.SampledFrom([]string{"v1", "v2", "v3", "v4"}).Draw(t, "value")
			}
			return e2eProc{Kind: "set", Headers: h}
		case k < 8 || !allowGen:
			return e2eProc{Kind: "nop"}
		default:
			h := map[string]string{}
			// the registry admits exactly one header parameter for GenerateResponse (default text/plain)
			h["Content-Type"] = rapid.SampledFrom([]string{"text/plain", "application/json", "text/html"}).Draw(t, "gv")
			return e2eProc{Kind: "gen", Status: rapid.SampledFrom([]int{403, 418, 429, 503}).Draw(t, "status"), Body: rapid.SampledFrom([]string{"b1", "b2", ""}).Draw(t, "body"), Headers: h}
		}
	})
}

func genE2ECase() *rapid.Generator[e2eCase] {
	return rapid.Custom(func(t *rapid.T) e2eCase {
		n := rapid.IntRange(1, 4).Draw(t, "flows")
		c := e2eCase{}
		for i := 0; i < n; i++ {
			c.Flows = append(c.Flows, e2eFlow{
				// the loader rejects a flow whose first request processor has no outgoing request connection
				Req:  append([]e2eProc{genE2EProc(false).Draw(t, "req0")}, rapid.SliceOfN(genE2EProc(true), 0, 4).Draw(t, "req")...),
				Resp: rapid.SliceOfN(genE2EProc(false), 0, 4).Draw(t, "resp"),
			})
			// half of the flows whose request chain ends in an answering processor get a fan-out of further answering
			// processors behind it: another answer, and (mostly) a copy of the first one after that
			f := &c.Flows[len(c.Flows)-1]
			f.Bare = rapid.SampledFrom([]string{"", "", "", "", "empty", "missing"}).Draw(t, "bare")
			for _, p := range f.Req {
				if p.Kind != "gen" {
					continue
				}
				if rapid.Bool().Draw(t, "fan") {
					other := e2eProc{Kind: "gen", Status: 500 + rapid.IntRange(1, 4).Draw(t, "fan-status"), Body: "other", Headers: map[string]string{"Content-Type": "text/plain"}}
					f.Fan = []e2eProc{other}
					if rapid.IntRange(0, 3).Draw(t, "fan-copy") > 0 {
						cp := p
						cp.Headers = map[string]string{}
						for k, v := range p.Headers {
							cp.Headers[k] = v
						}
						f.Fan = append(f.Fan, cp)
					}
				}
				break
			}
		}
		return c
	})
}

func sortedKeys(m map[string]string) []string {
	ks := make([]string, 0, len(m))
	for k := range m {
		ks = append(ks, k)
	}
	sort.Strings(ks)
	return ks
}

func (p e2eProc) yaml(key, dir string) string {
	var b strings.Builder
	switch p.Kind {
	case "set":
		fmt.Fprintf(&b, "  %s:\n    processor: TransformAPICall\n    parameters:\n      - key: set\n        value:\n", key)
		for _, k := range sortedKeys(p.Headers) {
			fmt.Fprintf(&b, "          \"$.%s.headers['%s']\": \"%s\"\n", dir, k, p.Headers[k])
		}
	case "nop":
		fmt.Fprintf(&b, "  %s:\n    processor: Filter\n    parameters:\n      - key: header\n        value: \"x-never=1\"\n", key)
	case "gen":
		fmt.Fprintf(&b, "  %s:\n    processor: GenerateResponse\n    parameters:\n      - key: status\n        value: %d\n      - key: body\n        value: \"%s\"\n", key, p.Status, p.Body)
		for _, k := range sortedKeys(p.Headers) {
			fmt.Fprintf(&b, "      - key: %s\n        value: \"%s\"\n", k, p.Headers[k])
		}
	}
	return b.String()
}

func endProc(name, cond string) string {
	s := "        processor:\n          name: " + name + "\n"
	if cond != "" {
		s += "          condition: " + cond + "\n"
	}
	return s
}

const endStreamStart = "        stream:\n          name: globalStream\n          at: start\n"
const endStreamEnd = "        stream:\n          name: globalStream\n          at: end\n"

// chain renders stream start -> p0 -> p1 ... -> stream end; a Filter forwards on both of its outputs; a
// GenerateResponse ends the request chain (its response connection is added by the caller).
func chain(keys []string, procs []e2eProc) string {
	var b strings.Builder
	conn := func(from, to string) { b.WriteString("    - from:\n" + from + "      to:\n" + to) }
	if len(keys) == 0 {
		conn(endStreamStart, endStreamEnd)
		return b.String()
	}
	conn(endStreamStart, endProc(keys[0], ""))
	for i, p := range procs {
		if p.Kind == "gen" {
			return b.String()
		}
		to := endStreamEnd
		if i+1 < len(keys) {
			to = endProc(keys[i+1], "")
		}
		if p.Kind == "nop" {
			conn(endProc(keys[i], "hit"), to)
			conn(endProc(keys[i], "miss"), to)
		} else {
			conn(endProc(keys[i], ""), to)
		}
	}
	return b.String()
}

func (f e2eFlow) yaml(idx int) string {
	var b strings.Builder
	fmt.Fprintf(&b, "name: c%d\nfilter:\n  url: \"h.com/c%d\"\nprocessors:\n", idx, idx)
	var rk, sk []string
	req := f.Req
	for i, p := range f.Req {
		k := fmt.Sprintf("Q%d", i)
		rk = append(rk, k)
		b.WriteString(p.yaml(k, "request"))
		if p.Kind == "gen" {
			req = f.Req[:i+1]
			break
		}
	}
	for i, p := range f.Resp {
		k := fmt.Sprintf("S%d", i)
		sk = append(sk, k)
		b.WriteString(p.yaml(k, "response"))
	}
	fan := f.Fan
	if last := req[len(req)-1]; last.Kind != "gen" || len(req) < 2 {
		fan = nil
	}
	var fk []string
	for i, p := range fan {
		k := fmt.Sprintf("F%d", i)
		fk = append(fk, k)
		b.WriteString(p.yaml(k, "request"))
	}
	b.WriteString("flow:\n  request:\n")
	b.WriteString(chain(rk, req))
	if len(fk) > 0 {
		prev, pk := req[len(req)-2], rk[len(rk)-2]
		for _, k := range fk {
			if prev.Kind == "nop" {
				b.WriteString("    - from:\n" + endProc(pk, "hit") + "      to:\n" + endProc(k, ""))
				b.WriteString("    - from:\n" + endProc(pk, "miss") + "      to:\n" + endProc(k, ""))
			} else {
				b.WriteString("    - from:\n" + endProc(pk, "") + "      to:\n" + endProc(k, ""))
			}
		}
	}
	b.WriteString("  response:\n")
	if last := req[len(req)-1]; last.Kind == "gen" {
		b.WriteString("    - from:\n" + endProc(rk[len(rk)-1], "") + "      to:\n" + endStreamEnd)
	}
	for _, k := range fk {
		b.WriteString("    - from:\n" + endProc(k, "") + "      to:\n" + endStreamEnd)
	}
	b.WriteString(chain(sk, f.Resp))
	return b.String()
}

// ---- driving the handler ------------------------------------------------------------------------------

var e2eSeq int

func e2eSend(name, url string, headers string, status int64) (d decoded, err error) {
	defer func() {
		if r := recover(); r != nil {
			err = fmt.Errorf("panic while handling a transaction: %v", r)
		}
	}()
	e2eSeq++
	id := fmt.Sprintf("t%d", e2eSeq)
	k := kv.NewKV()
	k.Add("id", id)
	k.Add("sequence_id", id)
	k.Add("method", "GET")
	k.Add("scheme", "https")
	k.Add("url", url)
	k.Add("path", url[strings.Index(url, "/"):])
	k.Add("query", "")
	switch headers {
	case "\x00missing":
	case "":
		k.Add("headers", "")
	default:
		k.Add("headers", headers+"\r\n\r\n") // the proxy's dump format: every line CRLF-terminated, then the closing empty line
	}
	k.Add("body", []byte(""))
	if name == "lunar-on-response" {
		k.Add("status", status)
	}
	msgs := message.Messages{&message.Message{Name: name, KV: k}}
	req := &request.Request{Messages: &msgs}
	e2eHandler(req)
	return decode(spoe.Actions(req.Actions)), nil
}

// expectation of the statement for one direction of one flow
type e2eWant struct {
	early *e2eProc          // first answering processor, nil if none
	edits map[string]string // union of header edits, later edit wins
	noop  bool
}

func wantOf(procs []e2eProc) e2eWant {
	w := e2eWant{edits: map[string]string{}, noop: true}
	for i := range procs {
		switch procs[i].Kind {
		case "gen":
			w.early = &procs[i]
			w.noop = false
			return w
		case "set":
			w.noop = false
			for k, v := range procs[i].Headers {
				w.edits[k] = v
			}
		}
	}
	return w
}

func e2eNonTrivial(procs []e2eProc) bool {
	// >= 2 edits of one header name with different values, or an answer behind at least one other processor
	last := map[string]string{}
	for i, p := range procs {
		if p.Kind == "gen" {
			return i > 0
		}
		for k, v := range p.Headers {
			if o, ok := last[k]; ok && o != v {
				return true
			}
			last[k] = v
		}
	}
	return false
}

func checkE2EFlow(idx int, f e2eFlow, shutdownBeforeResponse bool) error {
	url := fmt.Sprintf("h.com/c%d", idx)
	// the client's own value of x-a must not survive an edit of x-a and must not be touched otherwise
	reqHeaders, respHeaders := "host: h.com\r\nx-a: orig", "content-type: text/plain\r\nx-b: orig"
	switch f.Bare {
	case "empty":
		reqHeaders, respHeaders = "", ""
	case "missing":
		reqHeaders, respHeaders = "\x00missing", "\x00missing"
	}
	d, err := e2eSend("lunar-on-request", url, reqHeaders, 0)
	if err != nil {
		return err
	}
	if d.dup != "" {
		return fmt.Errorf("request: encoding sets %q twice / unexpected action", d.dup)
	}
	w := wantOf(f.Req)
	switch {
	case w.early != nil:
		if v, _ := d.vars[actions.ReturnEarlyResponseActionName].(bool); !v {
			return fmt.Errorf("request: processor answered (status %d) but the proxy is not told to return early: vars %v", w.early.Status, keys(d.vars))
		}
		if st, ok := d.vars[actions.StatusCodeActionName].(int); !ok || st != w.early.Status {
			return fmt.Errorf("request: early status %v, want %d", d.vars[actions.StatusCodeActionName], w.early.Status)
		}
		if b, ok := bodyOf(d.vars[actions.ResponseBodyActionName]); !ok || b != w.early.Body {
			return fmt.Errorf("request: early body %q, want %q", b, w.early.Body)
		}
		h, err := parseDump(d.vars[actions.ResponseHeadersActionName])
		if err != nil {
			return err
		}
		if !eqMap(h, w.early.Headers) {
			return fmt.Errorf("request: early response headers %v, want %v (the first early response must be passed on unchanged)", h, w.early.Headers)
		}
		if _, mod := d.vars[actions.RequestHeadersActionName]; mod {
			return fmt.Errorf("request: early response mixed with a request modification: vars %v", keys(d.vars))
		}
	case w.noop:
		if len(d.vars) != 0 {
			return fmt.Errorf("request: every processor produced a no-op but the proxy gets vars %v", keys(d.vars))
		}
	default:
		if _, early := d.vars[actions.ReturnEarlyResponseActionName]; early {
			return fmt.Errorf("request: no processor answered but the proxy is told to return early")
		}
		h, err := parseDump(d.vars[actions.RequestHeadersActionName])
		if err != nil {
			return fmt.Errorf("request: header edits %v expected: %v (vars %v)", w.edits, err, keys(d.vars))
		}
		for _, n := range e2eNames {
			want, edited := w.edits[n]
			got, present := h[n]
			switch {
			case edited && (!present || got != want):
				return fmt.Errorf("request: header %s is %q (present=%v) in the modification handed to the proxy, want %q (union of edits %v, later edit wins)", n, got, present, want, w.edits)
			case !edited && n == "x-a" && present && got != "orig":
				return fmt.Errorf("request: header x-a was never edited but is sent as %q", got)
			case !edited && n != "x-a" && present:
				return fmt.Errorf("request: header %s was never edited but is sent as %q", n, got)
			}
		}
	}
	// response direction (a real provider response; flows with an answering processor are probed too: the
	// response chain from stream start is independent of the request path)
	if shutdownBeforeResponse {
		// the gateway is told to shut down (SIGTERM cancels the process context) while this transaction is in
		// flight at the provider: its response must still be handled as configured
		ctx, cancel := context.WithCancel(context.Background())
		cancel()
		contextmanager.Get().WithContext(ctx)
		defer contextmanager.Get().WithContext(context.Background())
	}
	d, err = e2eSend("lunar-on-response", url, respHeaders, 200)
	if err != nil {
		return err
	}
	if d.dup != "" {
		return fmt.Errorf("response: encoding sets %q twice / unexpected action", d.dup)
	}
	w = wantOf(f.Resp)
	if w.noop {
		if len(d.vars) != 0 {
			return fmt.Errorf("response: every processor produced a no-op but the proxy gets vars %v", keys(d.vars))
		}
		return nil
	}
	if v, _ := d.vars[actions.ModifyResponseActionName].(bool); !v {
		return fmt.Errorf("response: header edits %v expected but the proxy is not told to modify the response: vars %v", w.edits, keys(d.vars))
	}
	h, err := parseDump(d.vars[actions.ResponseHeadersActionName])
	if err != nil {
		return err
	}
	for _, n := range e2eNames {
		want, edited := w.edits[n]
		got, present := h[n]
		switch {
		case edited && (!present || got != want):
			return fmt.Errorf("response: header %s is %q (present=%v) in the modification handed to the proxy, want %q (union of edits %v, later edit wins)", n, got, present, want, w.edits)
		case !edited && n == "x-b" && present && got != "orig":
			return fmt.Errorf("response: header x-b was never edited but is sent as %q", got)
		case !edited && n != "x-b" && present:
			return fmt.Errorf("response: header %s was never edited but is sent as %q", n, got)
		}
	}
	return nil
}

func TestFoldThroughGateway(t *testing.T) {
	r := ev.New(t, "C07")
	e2eSetup()
	if e2eErr != nil {
		r.Inconclusive("gateway fixture: " + e2eErr.Error())
		t.Skip(e2eErr)
	}
	rapid.Check(t, func(t *rapid.T) {
		c := genE2ECase().Draw(t, "case")
		repr := func() string { b, _ := json.Marshal(c); return string(b) }
		level := loglevel.Gen().Draw(t, "log level")
		r.Class("log level " + level)
		defer loglevel.Set(level)()
		r.Case()
		dir := filepath.Join(e2eRoot, "flows")
		old, _ := filepath.Glob(filepath.Join(dir, "*.yaml"))
		for _, f := range old {
			os.Remove(f)
		}
		for i, f := range c.Flows {
			if err := os.WriteFile(filepath.Join(dir, fmt.Sprintf("c%d.yaml", i)), []byte(f.yaml(i)), 0o644); err != nil {
				t.Fatalf("%s", err)
			}
		}
		rr := httptest.NewRecorder()
		e2eMux.ServeHTTP(rr, httptest.NewRequest(http.MethodPost, "/load_flows", nil))
		if rr.Code != 200 {
			t.Fatalf("%s", r.Fail(repr(), "harness: generated flows were not loaded (%d): %s\n%s", rr.Code, rr.Body.String(), c.Flows[0].yaml(0)))
		}
		for i, f := range c.Flows {
			r.ClassN("flows", 1)
			if wantOf(f.Req).early != nil {
				r.Class("req:early")
			} else if wantOf(f.Req).noop {
				r.Class("req:noop")
			} else {
				r.Class("req:modify")
			}
			if wantOf(f.Resp).noop {
				r.Class("resp:noop")
			} else {
				r.Class("resp:modify")
			}
			if e2eNonTrivial(f.Req) || e2eNonTrivial(f.Resp) {
				fj, _ := json.Marshal(f)
				r.NonTrivial(string(fj), func() any { return f })
			}
			shutdown := rapid.IntRange(0, 3).Draw(t, "shutdown-before-response") == 0
			if shutdown {
				r.Class("response handled after the shutdown signal")
			}
			if err := checkE2EFlow(i, f, shutdown); err != nil {
				if shutdown {
					t.Fatalf("%s", r.Fail(repr(), "flow c%d (the process context was cancelled between its request and its response): %v", i, err))
				}
				t.Fatalf("%s", r.Fail(repr(), "flow c%d: %v", i, err))
			}
		}
	})
}
