package c07

// Unit TestFoldWithSharedHeaderMaps: the folds of the other units get action objects with header maps of their
// own. In the gateway two actions of one transaction can be built around ONE map object: DataSanitation and
// TransformAPICall pass the transaction's live header map (HeadersToSet: obj.GetHeaders()), so two such processors
// in a flow hand the fold two actions that share a map. Here some actions of a sequence share their header map
// with an earlier action of the same content; the fold must give what the content of its actions requires (the
// same oracle as the other units) - merging must not write into a map that a later action of the fold still
// carries. (Every producer in the repository builds a fresh action object per execution, so one object taking
// part in two folds, or twice in one, is not generated.)

import (
	"fmt"
	"testing"

	"lunar/engine/actions"

	"pgregory.net/rapid"

	"verif/harness/internal/ev"
)

type reuseCase struct {
	Side  string  `json:"side"`
	Pool  []spec  `json:"pool"`
	Alias []int   `json:"header_map_shared_with"` // per pool entry: index of the earlier entry whose map it shares, -1 = own map
	Folds [][]int `json:"folds"`                  // indices into the pool
}

func setHeaders(a any, m map[string]string) bool {
	switch x := a.(type) {
	case *actions.ModifyHeadersAction:
		x.HeadersToSet = m
	case *actions.ModifyRequestAction:
		x.HeadersToSet = m
	case *actions.GenerateRequestAction:
		x.HeadersToSet = m
	case *actions.EarlyResponseAction:
		x.Headers = m
	case *actions.ModifyResponseAction:
		x.HeadersToSet = m
	case *actions.RetryRequestAction:
		x.HeadersToSet = m
	default:
		return false
	}
	return true
}

func headersOf(a any) map[string]string {
	switch x := a.(type) {
	case *actions.ModifyHeadersAction:
		return x.HeadersToSet
	case *actions.ModifyRequestAction:
		return x.HeadersToSet
	case *actions.GenerateRequestAction:
		return x.HeadersToSet
	case *actions.EarlyResponseAction:
		return x.Headers
	case *actions.ModifyResponseAction:
		return x.HeadersToSet
	case *actions.RetryRequestAction:
		return x.HeadersToSet
	}
	return nil
}

func TestFoldWithSharedHeaderMaps(t *testing.T) {
	r := ev.New(t, "C07")
	rapid.Check(t, func(t *rapid.T) {
		c := reuseCase{Side: rapid.SampledFrom([]string{"request", "response"}).Draw(t, "side")}
		n := rapid.IntRange(2, 5).Draw(t, "pool")
		for i := 0; i < n; i++ {
			var s spec
			if c.Side == "request" {
				s = genReqSpec().Draw(t, "action")
			} else {
				s = genRespSpec().Draw(t, "action")
			}
			alias := -1
			if i > 0 && s.Kind != "noop" && rapid.IntRange(0, 2).Draw(t, "share") == 0 {
				j := rapid.IntRange(0, i-1).Draw(t, "with")
				if c.Pool[j].Kind != "noop" && c.Pool[j].Headers != nil {
					alias = j
					s.Headers = copyMap(c.Pool[j].Headers) // same content, and below the same map object
				}
			}
			c.Pool = append(c.Pool, s)
			c.Alias = append(c.Alias, alias)
		}
		all := make([]int, n)
		for i := range all {
			all[i] = i
		}
		c.Folds = [][]int{all}
		r.CaseN(int64(len(c.Folds)))
		reqObjs := make([]actions.ReqLunarAction, n)
		respObjs := make([]actions.RespLunarAction, n)
		for i, s := range c.Pool {
			var obj any
			if c.Side == "request" {
				reqObjs[i] = s.req()
				obj = reqObjs[i]
			} else {
				respObjs[i] = s.resp()
				obj = respObjs[i]
			}
			if a := c.Alias[i]; a >= 0 {
				var other any
				if c.Side == "request" {
					other = reqObjs[a]
				} else {
					other = respObjs[a]
				}
				if m := headersOf(other); m != nil {
					setHeaders(obj, m)
				}
			}
		}
		shared := false
		seen := map[int]bool{}
		for fi, f := range c.Folds {
			seq := make([]spec, len(f))
			nonNoop := 0
			for k, idx := range f {
				seq[k] = c.Pool[idx]
				if seq[k].Kind != "noop" {
					nonNoop++
					if c.Alias[idx] >= 0 {
						shared = true
					}
					seen[idx] = true
				}
			}
			var err error
			if c.Side == "request" {
				in := make([]actions.ReqLunarAction, len(f))
				for k, idx := range f {
					in[k] = reqObjs[idx]
				}
				err = checkReqOn(seq, in)
			} else {
				in := make([]actions.RespLunarAction, len(f))
				for k, idx := range f {
					in[k] = respObjs[idx]
				}
				err = checkRespOn(seq, in)
			}
			if err != nil {
				t.Fatalf("%s", r.Fail(c, "fold %d over actions %v, some of which share a header map: %v", fi, f, err))
			}
		}
		if shared {
			r.Class("two actions of the fold share one header map")
			r.NonTrivial(ev.JSON(c), func() any { return c })
		}
		_ = fmt.Sprint
	})
}
