// Package engine drives lunar's flow engine in-process through its exported
// API: it writes flow/quota YAML into a scratch directory, loads it with
// streams.NewValidationStream(dir).Initialize(), runs transactions through
// Stream.ExecuteFlow and classifies the resulting actions.
package engine

import (
	"context"
	"fmt"
	"io"
	"os"
	"path/filepath"
	"sync"
	"time"

	"lunar/engine/actions"
	lunar_messages "lunar/engine/messages"
	"lunar/engine/streams"
	stream_config "lunar/engine/streams/config"
	lunar_context "lunar/engine/streams/lunar-context"
	public_types "lunar/engine/streams/public-types"
	stream_types "lunar/engine/streams/types"
	"lunar/engine/utils/environment"
	"lunar/toolkit-core/clock"
	context_manager "lunar/toolkit-core/context-manager"
	lunar_cluster "lunar/toolkit-core/network/lunar-cluster"
	lunarotel "lunar/toolkit-core/otel"
	"lunar/toolkit-core/verifhook"

	"github.com/rs/zerolog"
	zlog "github.com/rs/zerolog/log"
	sdkmetric "go.opentelemetry.io/otel/sdk/metric"
	"go.opentelemetry.io/otel/sdk/metric/metricdata"
)

var setupOnce sync.Once

// Repo is the repository under test (VERIF_REPO, default /repo).
func Repo() string {
	if r := os.Getenv("VERIF_REPO"); r != "" {
		return r
	}
	return "/repo"
}

// Setup performs the process-wide initialisation every engine-level check needs.
func Setup() {
	setupOnce.Do(func() {
		if os.Getenv("VERIF_LOG") == "" {
			zerolog.SetGlobalLevel(zerolog.Disabled)
		}
		environment.SetProcessorsDirectory(filepath.Join(Repo(), "proxy/src/services/lunar-engine/streams/processors/registry"))
		if os.Getenv("LUNAR_RETRY_REQUEST_TIMEOUT_SEC") == "" {
			os.Setenv("LUNAR_RETRY_REQUEST_TIMEOUT_SEC", "100")
		}
		if os.Getenv("LUNAR_SPOE_PROCESSING_TIMEOUT_SEC") == "" {
			os.Setenv("LUNAR_SPOE_PROCESSING_TIMEOUT_SEC", "60")
		}
	})
}

// SetClock installs the process-wide clock read by quota strategies, the queue
// processor, the policies accessor, ... (hook H1). Must be called before the
// components that capture the clock at construction are built.
func SetClock(c clock.Clock) { context_manager.Get().SetClockForVerif(c) }

// Dir is a scratch configuration directory.
type Dir struct{ Path string }

// NewDir creates <base>/flows, quotas, path_params.
func NewDir(base string) (*Dir, error) {
	p, err := os.MkdirTemp(base, "cfg-")
	if err != nil {
		return nil, err
	}
	for _, d := range []string{"flows", "quotas", "path_params"} {
		if err := os.MkdirAll(filepath.Join(p, d), 0o755); err != nil {
			return nil, err
		}
	}
	return &Dir{Path: p}, nil
}

func (d *Dir) Remove() { _ = os.RemoveAll(d.Path) }

func (d *Dir) WriteFlow(name, yaml string) error {
	return os.WriteFile(filepath.Join(d.Path, "flows", name), []byte(yaml), 0o644)
}

func (d *Dir) WriteQuota(name, yaml string) error {
	return os.WriteFile(filepath.Join(d.Path, "quotas", name), []byte(yaml), 0o644)
}

// Load builds and initialises a stream from the directory.
func (d *Dir) Load() (*streams.Stream, error) {
	Setup()
	s, err := streams.NewValidationStream(d.Path)
	if err != nil {
		return nil, err
	}
	if err := s.Initialize(); err != nil {
		return nil, err
	}
	return s, nil
}

// LoadGateway builds and initialises a stream the way the running gateway does (streams.NewStream: directories
// from the environment, no validation mode - unusable flow files are skipped as long as some flow remains).
func (d *Dir) LoadGateway() (*streams.Stream, error) {
	Setup()
	environment.SetStreamsFlowsDirectory(filepath.Join(d.Path, "flows"))
	environment.SetQuotasDirectory(filepath.Join(d.Path, "quotas"))
	environment.SetPathParamsDirectory(filepath.Join(d.Path, "path_params"))
	s, err := streams.NewStream()
	if err != nil {
		return nil, err
	}
	if err := s.Initialize(); err != nil {
		return nil, err
	}
	return s, nil
}

var SharedState = lunar_context.NewMemoryState[[]byte]()

// Txn describes one transaction side.
type Txn struct {
	ID       string
	Seq      string
	Method   string
	Scheme   string
	URL      string // host/path, as HAProxy hands it over
	Path     string
	Query    string
	Headers  map[string]string
	Body     string
	Status   int // response only
	Time     time.Time
	FullName bool // use the lunar-full-* message names
}

func hdr(m map[string]string) map[string]string {
	o := map[string]string{}
	for k, v := range m {
		o[k] = v
	}
	return o
}

func (t Txn) OnRequest() lunar_messages.OnRequest {
	seq := t.Seq
	if seq == "" {
		seq = t.ID
	}
	scheme := t.Scheme
	if scheme == "" {
		scheme = "https"
	}
	return lunar_messages.OnRequest{
		ID: t.ID, SequenceID: seq, Method: t.Method, Scheme: scheme, URL: t.URL, Path: t.Path, Query: t.Query,
		Headers: hdr(t.Headers), RawBody: []byte(t.Body), Body: t.Body, Time: t.Time,
	}
}

func (t Txn) OnResponse() lunar_messages.OnResponse {
	seq := t.Seq
	if seq == "" {
		seq = t.ID
	}
	return lunar_messages.OnResponse{
		ID: t.ID, SequenceID: seq, Method: t.Method, URL: t.URL, Status: t.Status,
		Headers: hdr(t.Headers), RawBody: []byte(t.Body), Body: t.Body, Time: t.Time,
	}
}

// Result is the classified outcome of one ExecuteFlow call.
type Result struct {
	Err       error
	Early     *actions.EarlyResponseAction // first early response among the request actions
	ReqKinds  []string
	RespKinds []string
	Actions   *stream_config.StreamActions
}

func (r Result) Refused() bool { return r.Early != nil }

func kindOfReq(a actions.ReqLunarAction) string {
	switch a.(type) {
	case *actions.NoOpAction:
		return "noop"
	case *actions.EarlyResponseAction:
		return "early"
	case *actions.ModifyRequestAction:
		return "mod"
	case *actions.ModifyHeadersAction:
		return "hdr"
	case *actions.GenerateRequestAction:
		return "gen"
	}
	return fmt.Sprintf("%T", a)
}

func kindOfResp(a actions.RespLunarAction) string {
	switch a.(type) {
	case *actions.NoOpAction:
		return "noop"
	case *actions.ModifyResponseAction:
		return "modresp"
	case *actions.RetryRequestAction:
		return "retry"
	}
	return fmt.Sprintf("%T", a)
}

// RunRequest executes the request side of txn.
func RunRequest(s *streams.Stream, t Txn) Result {
	api := stream_types.NewRequestAPIStream(t.OnRequest(), SharedState)
	return Run(s, api)
}

// RunResponse executes the response side of txn.
func RunResponse(s *streams.Stream, t Txn) Result {
	api := stream_types.NewResponseAPIStream(t.OnResponse(), SharedState)
	return Run(s, api)
}

// Run executes an already built API stream.
func Run(s *streams.Stream, api public_types.APIStreamI) Result {
	acts := &stream_config.StreamActions{
		Request:  &stream_config.RequestStream{},
		Response: &stream_config.ResponseStream{},
	}
	res := Result{Actions: acts}
	res.Err = s.ExecuteFlow(api, acts)
	for _, a := range acts.Request.Actions {
		res.ReqKinds = append(res.ReqKinds, kindOfReq(a))
		if e, ok := a.(*actions.EarlyResponseAction); ok && res.Early == nil {
			res.Early = e
		}
	}
	for _, a := range acts.Response.Actions {
		res.RespKinds = append(res.RespKinds, kindOfResp(a))
	}
	return res
}

// ---- H2 event capture --------------------------------------------------------

type ProcEvent struct {
	Flow, Key, Dir, Output string
}

type Recorder struct {
	mu     sync.Mutex
	events []ProcEvent
	limit  int
	over   bool
}

// Capture installs a process-wide H2 handler; only one recorder is active at a time.
func Capture(limit int) *Recorder {
	r := &Recorder{limit: limit}
	verifhook.SetEvent(func(kind string, a, b, c, d string) {
		if kind != "proc" {
			return
		}
		r.mu.Lock()
		if r.limit > 0 && len(r.events) >= r.limit {
			r.over = true
			r.mu.Unlock()
			// a flow that never terminates: unwind it with a recognisable panic
			panic(StepLimit{Limit: r.limit})
		}
		r.events = append(r.events, ProcEvent{a, b, c, d})
		r.mu.Unlock()
	})
	return r
}

type StepLimit struct{ Limit int }

func (s StepLimit) Error() string { return fmt.Sprintf("verif: more than %d processor executions", s.Limit) }

func (r *Recorder) Take() []ProcEvent {
	r.mu.Lock()
	defer r.mu.Unlock()
	out := r.events
	r.events = nil
	r.over = false
	return out
}

func (r *Recorder) Stop() { verifhook.SetEvent(nil) }

// Metrics is a meter provider of the harness' own, installed as the meter otel.GetMeter() hands out (hook
// SetMeterForVerif): the gauges that quota resources and plugins register are then collected when the harness
// says so - the read path of the gateway's /metrics endpoint.
type Metrics struct {
	reader   *sdkmetric.ManualReader
	provider *sdkmetric.MeterProvider
}

// NewMetrics installs a fresh provider; call it before the components that register gauges are built.
func NewMetrics() *Metrics {
	r := sdkmetric.NewManualReader()
	p := sdkmetric.NewMeterProvider(sdkmetric.WithReader(r))
	lunarotel.SetMeterForVerif(p.Meter("verif"))
	return &Metrics{reader: r, provider: p}
}

// Read performs one metrics collection (every registered gauge callback runs).
func (m *Metrics) Read() error {
	var rm metricdata.ResourceMetrics
	return m.reader.Collect(context.Background(), &rm)
}

// Close drops the provider (its callbacks are not called any more).
func (m *Metrics) Close() { _ = m.provider.Shutdown(context.Background()) }

// WithLogLevel runs f with the engine's loggers at the given level ("" / "disabled", "error", "debug", "trace"),
// their output discarded: what a log statement does to format its arguments happens, nothing is printed.
// Afterwards logging is disabled again (the state Setup leaves).
func WithLogLevel(level string, f func()) {
	lv := zerolog.Disabled
	switch level {
	case "error":
		lv = zerolog.ErrorLevel
	case "debug":
		lv = zerolog.DebugLevel
	case "trace":
		lv = zerolog.TraceLevel
	}
	if lv == zerolog.Disabled || os.Getenv("VERIF_LOG") != "" {
		f()
		return
	}
	prev := zlog.Logger
	zlog.Logger = zerolog.New(io.Discard)
	zerolog.SetGlobalLevel(lv)
	defer func() {
		zerolog.SetGlobalLevel(zerolog.Disabled)
		zlog.Logger = prev
	}()
	f()
}

// SetCluster wires the cluster-liveness component the way main() does (lunar_cluster.NewLunarCluster with the
// gateway instance id, which main() reads from GATEWAY_INSTANCE_ID and accepts empty) - or leaves none ("none").
func SetCluster(instanceID string) {
	if instanceID == "none" {
		context_manager.Get().WithClusterLiveness(nil)
		return
	}
	c, _ := lunar_cluster.NewLunarCluster(instanceID)
	context_manager.Get().WithClusterLiveness(c)
}
