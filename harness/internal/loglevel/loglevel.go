// Package loglevel makes the gateway's log level (LOG_LEVEL) a generated part of a case. What is logged is thrown
// away; what a log statement does to build its arguments happens. No answer of the gateway may depend on it.
package loglevel

import (
	"io"
	"os"
	"sync/atomic"

	"github.com/rs/zerolog"
	zlog "github.com/rs/zerolog/log"
	"pgregory.net/rapid"
)

// Levels: "off" is the state the harness otherwise runs in (zerolog.Disabled); the weights keep most cases there.
var Levels = []string{"off", "off", "off", "error", "info", "debug", "debug", "trace"}

// Gen draws a level.
func Gen() *rapid.Generator[string] { return rapid.SampledFrom(Levels) }

var current atomic.Value // string: the level of the case that is running, "" when logging is off

// Current is the level set by With / Set / WithLevelOnly for the case that is running ("" = off).
func Current() string {
	if v, ok := current.Load().(string); ok {
		return v
	}
	return ""
}

func parse(level string) (zerolog.Level, bool) {
	if level == "" || level == "off" || os.Getenv("VERIF_LOG") != "" {
		return zerolog.Disabled, false
	}
	lv, err := zerolog.ParseLevel(level)
	if err != nil {
		return zerolog.Disabled, false
	}
	return lv, true
}

// With runs f at the given level with the process-wide logger writing to nowhere; afterwards logging is off again
// and the logger is the one it was. Not for cases whose goroutines outlive f under the race detector (the logger
// variable is written): use Discard once and WithLevelOnly there.
func With(level string, f func()) {
	lv, ok := parse(level)
	if !ok {
		f()
		return
	}
	prev := zlog.Logger
	zlog.Logger = zerolog.New(io.Discard)
	zerolog.SetGlobalLevel(lv)
	current.Store(level)
	defer func() {
		current.Store("")
		zerolog.SetGlobalLevel(zerolog.Disabled)
		zlog.Logger = prev
	}()
	f()
}

// Discard points the process-wide logger to nowhere for good (call it before anything logs).
func Discard() {
	if os.Getenv("VERIF_LOG") == "" {
		zlog.Logger = zerolog.New(io.Discard)
	}
}

// WithLevelOnly changes only the global level (an atomic), for f and what f leaves running until it returns.
func WithLevelOnly(level string, f func()) {
	lv, ok := parse(level)
	if !ok {
		f()
		return
	}
	zerolog.SetGlobalLevel(lv)
	current.Store(level)
	defer func() { current.Store(""); zerolog.SetGlobalLevel(zerolog.Disabled) }()
	f()
}

// Set is With for bodies that cannot be wrapped in a function: defer loglevel.Set(level)().
func Set(level string) (restore func()) {
	lv, ok := parse(level)
	if !ok {
		return func() {}
	}
	prev := zlog.Logger
	zlog.Logger = zerolog.New(io.Discard)
	zerolog.SetGlobalLevel(lv)
	current.Store(level)
	return func() {
		current.Store("")
		zerolog.SetGlobalLevel(zerolog.Disabled)
		zlog.Logger = prev
	}
}

// SetLevelOnly is WithLevelOnly for bodies that cannot be wrapped: defer loglevel.SetLevelOnly(level)().
func SetLevelOnly(level string) (restore func()) {
	lv, ok := parse(level)
	if !ok {
		return func() {}
	}
	zerolog.SetGlobalLevel(lv)
	current.Store(level)
	return func() { current.Store(""); zerolog.SetGlobalLevel(zerolog.Disabled) }
}
