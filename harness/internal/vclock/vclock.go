// Package vclock is a harness-owned virtual clock implementing lunar's
// toolkit-core clock.Clock. Time only moves when the test advances it; every
// After/Sleep registers a timer tagged with the lunar function that asked for
// it, which lets a test (a) fire timers deterministically in timestamp order,
// (b) wait until a woken loop goroutine has re-armed its next timer (a
// hand-shake instead of a sleep) and (c) hold a goroutine inside After(),
// i.e. between evaluating `clock.After(ttl)` and parking in its select.
package vclock

import (
	"fmt"
	"runtime"
	"sort"
	"strings"
	"sync"
	"time"
)

type Timer struct {
	ID    int
	At    time.Time
	Owner string
	ch    chan time.Time
	fired bool
	held  bool
}

type Clock struct {
	mu       sync.Mutex
	cond     *sync.Cond
	now      time.Time
	timers   []*Timer
	nextID   int
	regCount map[string]int // registrations per owner
	lastID   map[string]int // newest timer id per owner
	holdPred func(owner string) bool
	// SettleTimeout bounds the real time a hand-shake may take (inconclusive, not a violation).
	SettleTimeout time.Duration
}

func New(start time.Time) *Clock {
	c := &Clock{now: start, regCount: map[string]int{}, lastID: map[string]int{}, SettleTimeout: 5 * time.Second}
	c.cond = sync.NewCond(&c.mu)
	return c
}

// ---- clock.Clock -----------------------------------------------------------

func (c *Clock) Now() time.Time {
	c.mu.Lock()
	defer c.mu.Unlock()
	return c.now
}

func (c *Clock) Since(t time.Time) time.Duration { return c.Now().Sub(t) }
func (c *Clock) Until(t time.Time) time.Duration { return t.Sub(c.Now()) }

func (c *Clock) Sleep(d time.Duration) { <-c.after(d) }

func (c *Clock) After(d time.Duration) <-chan time.Time { return c.after(d) }

func owner() string {
	pcs := make([]uintptr, 16)
	n := runtime.Callers(3, pcs)
	frames := runtime.CallersFrames(pcs[:n])
	first := ""
	for {
		f, more := frames.Next()
		if !strings.Contains(f.Function, "internal/vclock.") {
			if first == "" {
				first = f.Function
			}
			if strings.HasPrefix(f.Function, "lunar/") {
				return f.Function
			}
		}
		if !more {
			break
		}
	}
	return first
}

func (c *Clock) after(d time.Duration) chan time.Time {
	own := owner()
	c.mu.Lock()
	c.nextID++
	t := &Timer{ID: c.nextID, At: c.now.Add(d), Owner: own, ch: make(chan time.Time, 1)}
	if d <= 0 {
		t.fired = true
		t.ch <- c.now
	} else {
		c.timers = append(c.timers, t)
	}
	c.regCount[own]++
	c.lastID[own] = t.ID
	if c.holdPred != nil && c.holdPred(own) {
		t.held = true
	}
	c.cond.Broadcast()
	for t.held {
		c.cond.Wait()
	}
	c.mu.Unlock()
	return t.ch
}

// ---- control ----------------------------------------------------------------

type Info struct {
	ID    int
	At    time.Time
	Owner string
	Held  bool
	// regs is the number of timers Owner had registered when this timer fired
	regs int
}

// Pending lists unfired timers ordered by (At, ID).
func (c *Clock) Pending() []Info {
	c.mu.Lock()
	defer c.mu.Unlock()
	return c.pendingLocked()
}

func (c *Clock) pendingLocked() []Info {
	out := []Info{}
	for _, t := range c.timers {
		out = append(out, Info{ID: t.ID, At: t.At, Owner: t.Owner, Held: t.held})
	}
	sort.Slice(out, func(i, j int) bool {
		if !out[i].At.Equal(out[j].At) {
			return out[i].At.Before(out[j].At)
		}
		return out[i].ID < out[j].ID
	})
	return out
}

// HoldWhere makes every later After/Sleep call whose owner satisfies pred block
// inside the call (after the timer is registered) until Release.
func (c *Clock) HoldWhere(pred func(owner string) bool) {
	c.mu.Lock()
	c.holdPred = pred
	c.mu.Unlock()
}

// Held lists timers whose goroutine is currently held inside After.
func (c *Clock) Held() []Info {
	c.mu.Lock()
	defer c.mu.Unlock()
	out := []Info{}
	for _, t := range c.timers {
		if t.held {
			out = append(out, Info{ID: t.ID, At: t.At, Owner: t.Owner, Held: true})
		}
	}
	sort.Slice(out, func(i, j int) bool { return out[i].ID < out[j].ID })
	return out
}

// Release lets the goroutine held for timer id continue (id < 0: all).
func (c *Clock) Release(id int) {
	c.mu.Lock()
	for _, t := range c.timers {
		if id < 0 || t.ID == id {
			t.held = false
		}
	}
	c.cond.Broadcast()
	c.mu.Unlock()
}

// Registrations returns how many timers owners containing substr have registered so far.
func (c *Clock) Registrations(substr string) int {
	c.mu.Lock()
	defer c.mu.Unlock()
	return c.regLocked(substr)
}

func (c *Clock) regLocked(substr string) int {
	n := 0
	for k, v := range c.regCount {
		if strings.Contains(k, substr) {
			n += v
		}
	}
	return n
}

// WaitRegistrations blocks until owners containing substr have registered at
// least n timers in total, or the settle timeout passes.
func (c *Clock) WaitRegistrations(substr string, n int) error {
	deadline := time.Now().Add(c.SettleTimeout)
	stop := time.AfterFunc(c.SettleTimeout+10*time.Millisecond, func() { c.mu.Lock(); c.cond.Broadcast(); c.mu.Unlock() })
	defer stop.Stop()
	c.mu.Lock()
	defer c.mu.Unlock()
	for c.regLocked(substr) < n {
		if time.Now().After(deadline) {
			return fmt.Errorf("vclock: %q registered %d timers, waited for %d", substr, c.regLocked(substr), n)
		}
		c.cond.Wait()
	}
	return nil
}

// WaitHeld blocks until n goroutines are held inside After.
func (c *Clock) WaitHeld(n int) error {
	deadline := time.Now().Add(c.SettleTimeout)
	stop := time.AfterFunc(c.SettleTimeout+10*time.Millisecond, func() { c.mu.Lock(); c.cond.Broadcast(); c.mu.Unlock() })
	defer stop.Stop()
	c.mu.Lock()
	defer c.mu.Unlock()
	for {
		k := 0
		for _, t := range c.timers {
			if t.held {
				k++
			}
		}
		if k >= n {
			return nil
		}
		if time.Now().After(deadline) {
			return fmt.Errorf("vclock: %d goroutines held, waited for %d", k, n)
		}
		c.cond.Wait()
	}
}

// Set moves the clock to t (never backwards) without firing anything that is not due.
func (c *Clock) Set(t time.Time) []Info { return c.advanceTo(t, nil) }

// Advance moves the clock forward by d, firing due timers in (At, ID) order.
func (c *Clock) Advance(d time.Duration) []Info {
	c.mu.Lock()
	target := c.now.Add(d)
	c.mu.Unlock()
	return c.advanceTo(target, nil)
}

// AdvanceSettle is Advance plus a hand-shake: after firing a timer whose owner
// contains one of loops, it waits until that owner has registered its next
// timer (the woken loop finished its pass) before going on. The returned error
// means the hand-shake timed out (inconclusive).
func (c *Clock) AdvanceSettle(d time.Duration, loops ...string) ([]Info, error) {
	c.mu.Lock()
	target := c.now.Add(d)
	c.mu.Unlock()
	var err error
	fired := c.advanceTo(target, func(fi Info) {
		for _, l := range loops {
			if strings.Contains(fi.Owner, l) {
				if e := c.waitNextFrom(fi.Owner, fi.regs); e != nil && err == nil {
					err = e
				}
				return
			}
		}
	})
	return fired, err
}

// waitNextFrom waits until owner has registered more than regs timers, i.e.
// the goroutine woken by the fired timer has armed its next one (timers are
// fired one at a time, and every other loop of that owner is parked meanwhile).
func (c *Clock) waitNextFrom(own string, regs int) error {
	deadline := time.Now().Add(c.SettleTimeout)
	stop := time.AfterFunc(c.SettleTimeout+10*time.Millisecond, func() { c.mu.Lock(); c.cond.Broadcast(); c.mu.Unlock() })
	defer stop.Stop()
	c.mu.Lock()
	defer c.mu.Unlock()
	for {
		if c.regCount[own] > regs {
			return nil
		}
		if time.Now().After(deadline) {
			return fmt.Errorf("vclock: %s did not re-arm after its timer fired", own)
		}
		c.cond.Wait()
	}
}

func (c *Clock) advanceTo(target time.Time, afterFire func(Info)) []Info {
	fired := []Info{}
	for {
		c.mu.Lock()
		var next *Timer
		idx := -1
		for i, t := range c.timers {
			if t.At.After(target) {
				continue
			}
			if next == nil || t.At.Before(next.At) || (t.At.Equal(next.At) && t.ID < next.ID) {
				next, idx = t, i
			}
		}
		if next == nil {
			if target.After(c.now) {
				c.now = target
			}
			c.mu.Unlock()
			return fired
		}
		if next.At.After(c.now) {
			c.now = next.At
		}
		c.timers = append(c.timers[:idx], c.timers[idx+1:]...)
		next.fired = true
		next.ch <- c.now
		fi := Info{next.ID, next.At, next.Owner, next.held, c.regCount[next.Owner]}
		c.mu.Unlock()
		fired = append(fired, fi)
		if afterFire != nil {
			afterFire(fi)
		}
	}
}

// Fire fires exactly the timer id (moving the clock to its instant if that is
// later than now). It reports whether the timer was pending.
func (c *Clock) Fire(id int) bool {
	c.mu.Lock()
	defer c.mu.Unlock()
	for i, t := range c.timers {
		if t.ID == id {
			if t.At.After(c.now) {
				c.now = t.At
			}
			c.timers = append(c.timers[:i], c.timers[i+1:]...)
			t.fired = true
			t.ch <- c.now
			return true
		}
	}
	return false
}
