// Package flowgen holds a plain description of a flow file (processors and
// connection lists per direction) and renders it as the YAML lunar loads.
package flowgen

import (
	"fmt"
	"strings"
)

// Proc is one processor declaration.
type Proc struct {
	Key  string `json:"key"`
	Kind string `json:"kind"`          // T (TransformAPICall), F (Filter), G (GenerateResponse), L (Limiter), Q (Queue), M (MockProcessor)
	Arg  string `json:"arg,omitempty"` // F: header name; G: status; L/Q: quota id
}

// End is one side of a connection.
type End struct {
	Stream string `json:"stream,omitempty"` // "start" | "end"
	Proc   string `json:"proc,omitempty"`
	Cond   string `json:"cond,omitempty"`
	Flow   string `json:"flow,omitempty"` // referenced flow name
	At     string `json:"at,omitempty"`   // for Flow: "start" | "end"
}

type Conn struct {
	From End `json:"from"`
	To   End `json:"to"`
}

type Flow struct {
	Name   string   `json:"name"`
	URL    string   `json:"url"`
	Method []string `json:"method,omitempty"`
	// FilterExtra: further filter lines as YAML, indented by two blanks (status_code, query_params, headers)
	FilterExtra string `json:"filter_extra,omitempty"`
	Procs  []Proc   `json:"procs"`
	Req    []Conn   `json:"request"`
	Resp   []Conn   `json:"response"`
}

func (p Proc) yaml() string {
	var b strings.Builder
	switch p.Kind {
	case "T":
		fmt.Fprintf(&b, "  %s:\n    processor: TransformAPICall\n    parameters:\n      - key: set\n        value:\n          \"$.request.headers['x-t-%s']\": \"1\"\n", p.Key, strings.ToLower(p.Key))
	case "F":
		fmt.Fprintf(&b, "  %s:\n    processor: Filter\n    parameters:\n      - key: header\n        value: \"%s=1\"\n", p.Key, p.Arg)
	case "G":
		st := p.Arg
		if st == "" {
			st = "418"
		}
		fmt.Fprintf(&b, "  %s:\n    processor: GenerateResponse\n    parameters:\n      - key: status\n        value: %s\n      - key: body\n        value: \"%s\"\n", p.Key, st, p.Key)
	case "L":
		fmt.Fprintf(&b, "  %s:\n    processor: Limiter\n    parameters:\n      - key: quota_id\n        value: %s\n", p.Key, p.Arg)
	case "M":
		fmt.Fprintf(&b, "  %s:\n    processor: MockProcessor\n", p.Key)
	default:
		fmt.Fprintf(&b, "  %s:\n    processor: %s\n", p.Key, p.Kind)
	}
	return b.String()
}

func (e End) yaml(ind string) string {
	var b strings.Builder
	switch {
	case e.Stream != "":
		fmt.Fprintf(&b, "%sstream:\n%s  name: globalStream\n%s  at: %s\n", ind, ind, ind, e.Stream)
	case e.Flow != "":
		fmt.Fprintf(&b, "%sflow:\n%s  name: %s\n%s  at: %s\n", ind, ind, e.Flow, ind, e.At)
	default:
		fmt.Fprintf(&b, "%sprocessor:\n%s  name: %s\n", ind, ind, e.Proc)
		if e.Cond != "" {
			fmt.Fprintf(&b, "%s  condition: %s\n", ind, e.Cond)
		}
	}
	return b.String()
}

func conns(cs []Conn) string {
	var b strings.Builder
	for _, c := range cs {
		b.WriteString("    - from:\n")
		b.WriteString(c.From.yaml("        "))
		b.WriteString("      to:\n")
		b.WriteString(c.To.yaml("        "))
	}
	return b.String()
}

// YAML renders the flow file.
func (f Flow) YAML() string {
	var b strings.Builder
	fmt.Fprintf(&b, "name: %s\nfilter:\n  url: \"%s\"\n", f.Name, f.URL)
	if len(f.Method) > 0 {
		fmt.Fprintf(&b, "  method: [%s]\n", strings.Join(f.Method, ", "))
	}
	b.WriteString(f.FilterExtra)
	b.WriteString("processors:\n")
	for _, p := range f.Procs {
		b.WriteString(p.yaml())
	}
	b.WriteString("flow:\n  request:\n")
	b.WriteString(conns(f.Req))
	b.WriteString("  response:\n")
	b.WriteString(conns(f.Resp))
	return b.String()
}

// Outputs lists the condition names a processor kind can emit.
func Outputs(kind string) []string {
	switch kind {
	case "F":
		return []string{"hit", "miss"}
	case "L":
		return []string{"below_limit", "above_limit"}
	case "M":
		return []string{"output_1", "output_2"}
	}
	return []string{""}
}

func StreamStart() End { return End{Stream: "start"} }
func StreamEnd() End   { return End{Stream: "end"} }
