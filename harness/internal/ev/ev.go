// Package ev collects per-run coverage statistics (cases, classes, distinct
// non-trivial fingerprints, samples), attributes failing cases to listed known
// findings, and writes one stats file per test for the ./check driver.
package ev

import (
	"encoding/json"
	"fmt"
	"hash/fnv"
	"os"
	"path/filepath"
	"sort"
	"sync"
	"testing"

	"verif/harness/internal/loglevel"
)

const maxSamples = 6
const maxFingerprints = 400000

type KnownHit struct {
	Count   int64 `json:"count"`
	Witness any   `json:"witness,omitempty"`
}

type Failure struct {
	Msg  string `json:"msg"`
	Case any    `json:"case,omitempty"`
}

type Stats struct {
	Property    string               `json:"property"`
	Test        string               `json:"test"`
	Cases       int64                `json:"cases"`
	Classes     map[string]int64     `json:"classes"`
	NonTrivial  int64                `json:"nontrivial_evaluations"`
	Fingerprint []uint64             `json:"fingerprints"`
	Samples     []any                `json:"samples"`
	Known       map[string]*KnownHit `json:"known"`
	Failure     *Failure             `json:"failure,omitempty"`
	Exhaustive  bool                 `json:"exhaustive,omitempty"`
	Notes       []string             `json:"notes,omitempty"`
	Inconcl     int64                `json:"inconclusive,omitempty"`
}

type Recorder struct {
	mu     sync.Mutex
	st     Stats
	fp     map[uint64]struct{}
	open   map[string]bool
	failed bool
}

type knownFile struct {
	Findings []struct {
		ID       string `json:"id"`
		Property string `json:"property"`
		Status   string `json:"status"`
	} `json:"findings"`
}

// New creates a recorder and registers its flush on test cleanup.
func New(t testing.TB, property string) *Recorder {
	r := &Recorder{fp: map[uint64]struct{}{}, open: map[string]bool{}}
	r.st.Property = property
	r.st.Test = t.Name()
	r.st.Classes = map[string]int64{}
	r.st.Known = map[string]*KnownHit{}
	path := os.Getenv("VERIF_KNOWN")
	if path == "" {
		path = "/verif/known_findings.json"
	}
	if b, err := os.ReadFile(path); err == nil {
		var kf knownFile
		if err := json.Unmarshal(b, &kf); err != nil {
			t.Fatalf("known findings file %s is not valid JSON: %v", path, err)
		}
		for _, f := range kf.Findings {
			if f.Property == property && f.Status == "open" {
				r.open[f.ID] = true
			}
		}
	}
	t.Cleanup(func() { r.Flush(t) })
	return r
}

// Case counts one generated case.
func (r *Recorder) Case() {
	r.mu.Lock()
	if !r.failed {
		r.st.Cases++
	}
	r.mu.Unlock()
}

// CaseN counts n evaluated cases at once (a generated set checked against n inputs).
func (r *Recorder) CaseN(n int64) {
	r.mu.Lock()
	if !r.failed {
		r.st.Cases += n
	}
	r.mu.Unlock()
}

// Class counts one occurrence of a named class of cases/events.
func (r *Recorder) Class(name string) { r.ClassN(name, 1) }

func (r *Recorder) ClassN(name string, n int64) {
	r.mu.Lock()
	if !r.failed {
		r.st.Classes[name] += n
	}
	r.mu.Unlock()
}

// NonTrivial records a case that is non-trivial by the property's stated rule.
// fingerprint must be a canonical rendering of the case; sample is only
// evaluated while sample slots remain.
func (r *Recorder) NonTrivial(fingerprint string, sample func() any) {
	h := fnv.New64a()
	h.Write([]byte(fingerprint))
	k := h.Sum64()
	r.mu.Lock()
	defer r.mu.Unlock()
	if r.failed {
		return
	}
	r.st.NonTrivial++
	if _, ok := r.fp[k]; ok {
		return
	}
	if len(r.fp) < maxFingerprints {
		r.fp[k] = struct{}{}
	}
	if len(r.st.Samples) < maxSamples && sample != nil {
		r.st.Samples = append(r.st.Samples, sample())
	}
}

// Sample stores an example case regardless of triviality (only if no samples yet).
func (r *Recorder) Sample(s any) {
	r.mu.Lock()
	if len(r.st.Samples) < maxSamples {
		r.st.Samples = append(r.st.Samples, s)
	}
	r.mu.Unlock()
}

// IsOpen says whether the finding id is listed as an open known finding.
func (r *Recorder) IsOpen(id string) bool { return r.open[id] }

// KnownFinding attributes a failing case to a listed known finding. It returns
// true when the finding is listed (status open); the caller must then continue
// the search. When it returns false the caller must report a violation.
func (r *Recorder) KnownFinding(id string, witness func() any) bool {
	if !r.open[id] {
		return false
	}
	r.mu.Lock()
	defer r.mu.Unlock()
	if r.failed {
		return true
	}
	h := r.st.Known[id]
	if h == nil {
		h = &KnownHit{}
		r.st.Known[id] = h
		if witness != nil {
			h.Witness = witness()
		}
	}
	h.Count++
	return true
}

func (r *Recorder) Inconclusive(note string) {
	r.mu.Lock()
	r.st.Inconcl++
	if len(r.st.Notes) < 10 {
		r.st.Notes = append(r.st.Notes, note)
	}
	r.mu.Unlock()
}

func (r *Recorder) Note(note string) {
	r.mu.Lock()
	if len(r.st.Notes) < 20 {
		r.st.Notes = append(r.st.Notes, note)
	}
	r.mu.Unlock()
}

func (r *Recorder) SetExhaustive(b bool) { r.mu.Lock(); r.st.Exhaustive = b; r.mu.Unlock() }

// Fail records the failing case (the last call wins: rapid replays the shrunk
// case last) and stops statistics from being polluted by shrinking.
func (r *Recorder) Fail(c any, format string, args ...any) string {
	msg := fmt.Sprintf(format, args...)
	if l := loglevel.Current(); l != "" {
		msg += " (gateway log level of the case: " + l + ")"
	}
	r.mu.Lock()
	r.failed = true
	r.st.Failure = &Failure{Msg: msg, Case: c}
	r.mu.Unlock()
	return msg
}

func (r *Recorder) Flush(t testing.TB) {
	r.mu.Lock()
	defer r.mu.Unlock()
	r.st.Fingerprint = r.st.Fingerprint[:0]
	for k := range r.fp {
		r.st.Fingerprint = append(r.st.Fingerprint, k)
	}
	sort.Slice(r.st.Fingerprint, func(i, j int) bool { return r.st.Fingerprint[i] < r.st.Fingerprint[j] })
	dir := os.Getenv("VERIF_STATS")
	if dir == "" {
		t.Logf("ev: %s cases=%d nontrivial=%d distinct=%d classes=%v known=%d", r.st.Test, r.st.Cases, r.st.NonTrivial, len(r.fp), r.st.Classes, len(r.st.Known))
		return
	}
	_ = os.MkdirAll(dir, 0o755)
	b, err := json.Marshal(&r.st)
	if err != nil {
		t.Errorf("ev: marshal stats: %v", err)
		return
	}
	name := filepath.Join(dir, safe(r.st.Test)+".json")
	if err := os.WriteFile(name, b, 0o644); err != nil {
		t.Errorf("ev: write stats: %v", err)
	}
}

func safe(s string) string {
	out := []rune(s)
	for i, c := range out {
		if !(c >= 'a' && c <= 'z' || c >= 'A' && c <= 'Z' || c >= '0' && c <= '9' || c == '_' || c == '-') {
			out[i] = '_'
		}
	}
	return string(out)
}

// Tier returns "quick" or "thorough".
func Tier() string {
	if os.Getenv("VERIF_TIER") == "thorough" {
		return "thorough"
	}
	return "quick"
}

// JSON renders v canonically (map keys sorted by encoding/json) for fingerprints.
func JSON(v any) string {
	b, err := json.Marshal(v)
	if err != nil {
		return fmt.Sprintf("%#v", v)
	}
	return string(b)
}
