// C11 — a transaction sees one policy version from request to response.
//
// The real config.TxnPoliciesAccessor (built by config.BuildInitialFromFile from a
// scratch policies.yaml, exactly as routing.initializePolicies builds it) runs on
// a harness-owned virtual clock. Histories of request / response look-ups,
// policy reloads (UpdatePoliciesData, ReloadFromFile, UpdateRawData+ReloadFromFile
// as POST /apply_policies does, failing reloads), fail-safe reverts
// (RevertToDiagnosisFree / RevertToLastLoaded through the loaded-policies files)
// and clock advances are generated; the two vacuum goroutines are driven and
// awaited through the clock (hand-shake, never a sleep). The oracle is a
// snapshot-isolation model: versions in creation order, one pin per transaction.
package c11

import (
	"encoding/json"
	"fmt"
	"io"
	"net/http"
	"os"
	"path/filepath"
	"runtime"
	"strings"
	"sync"
	"sync/atomic"
	"testing"
	"time"

	"lunar/engine/config"
	sharedConfig "lunar/shared-model/config"
	"lunar/toolkit-core/configuration"

	"pgregory.net/rapid"

	"verif/harness/internal/engine"
	"verif/harness/internal/ev"
	"verif/harness/internal/loglevel"
	"verif/harness/internal/vclock"
)

// retention is the period of the statement ("within the retention period",
// quantifier: "the 30 s retention"). It is deliberately NOT read from the code:
// a tree that retains for less must fail.
const retention = 30 * time.Second
const vacuumTick = 5 * time.Second // the accessor's vacuum period: an anchor is gone at the latest one period after its retention

// vacOwner identifies the timers of the two MapVacuum loops
// (lunar/toolkit-core/vacuum.(*MapVacuum[...]).vacuumInBackground.func1).
const vacOwner = "lunar/toolkit-core/vacuum."

var start = time.Unix(1_700_000_000, 0)

var (
	scratch  string
	polPath  string
	tp       = &transport{}
	initOnce sync.Once
)

// ---- process set-up ---------------------------------------------------------

// transport answers every HTTP request of the process in memory (HAProxy health
// check and endpoint management calls); no socket is ever opened.
type transport struct {
	mu     sync.Mutex
	calls  int
	refuse bool
}

func (t *transport) RoundTrip(req *http.Request) (*http.Response, error) {
	t.mu.Lock()
	t.calls++
	refuse := t.refuse && req.Method != http.MethodGet
	t.mu.Unlock()
	code, body := 200, "ok"
	if refuse {
		code, body = 500, "refused by the scripted HAProxy"
	}
	return &http.Response{
		StatusCode: code, Status: fmt.Sprintf("%d scripted", code), Proto: "HTTP/1.1", ProtoMajor: 1, ProtoMinor: 1,
		Header: http.Header{}, Body: io.NopCloser(strings.NewReader(body)), ContentLength: int64(len(body)), Request: req,
	}, nil
}

func (t *transport) setRefuse(b bool) { t.mu.Lock(); t.refuse = b; t.mu.Unlock() }
func (t *transport) count() int       { t.mu.Lock(); defer t.mu.Unlock(); return t.calls }

func TestMain(m *testing.M) {
	engine.Setup()
	base := os.Getenv("VERIF_SCRATCH")
	if base == "" {
		base = os.TempDir()
	}
	d, err := os.MkdirTemp(base, "c11-")
	if err != nil {
		fmt.Println("VERIF-INFRA: cannot create scratch dir:", err)
		os.Exit(2)
	}
	scratch = d
	polPath = filepath.Join(d, "policies.yaml")
	os.Setenv("LUNAR_PROXY_POLICIES_CONFIG", polPath)
	os.Setenv("LUNAR_PROXY_CONFIG_DIR", d)
	http.DefaultTransport = tp
	// the validation rules routing.initializePolicies registers before it builds the accessor
	sharedConfig.Validate.RegisterStructValidation(config.ValidateStructLevel,
		sharedConfig.Remedy{}, sharedConfig.Diagnosis{}, sharedConfig.PoliciesConfig{})
	if err := sharedConfig.Validate.RegisterValidation("validateInt", config.ValidateInt); err != nil {
		fmt.Println("VERIF-INFRA: cannot register validation:", err)
		os.Exit(2)
	}
	code := m.Run()
	os.RemoveAll(d)
	os.Exit(code)
}

// caseClock is the virtual clock of one case. When the case is over, every
// goroutine of that case that wakes up in Sleep (the two vacuum loops, the
// delayed HAProxy un-manage sleepers) ends itself, so finished cases leave no
// goroutines behind.
type caseClock struct {
	*vclock.Clock
	dead atomic.Bool
}

func (c *caseClock) Sleep(d time.Duration) {
	if c.dead.Load() {
		runtime.Goexit()
	}
	c.Clock.Sleep(d)
	if c.dead.Load() {
		runtime.Goexit()
	}
}

type infraErr struct{ msg string }

func (e infraErr) Error() string { return "VERIF-INFRA: " + e.msg }

func infra(format string, a ...any) error { return infraErr{fmt.Sprintf(format, a...)} }

// ---- policies carrying a marker ----------------------------------------------

// render produces a policies file whose global remedy is named after marker.
// Nothing global is enabled, so the change itself needs no HAProxy call; with
// endpoint=true one enabled endpoint remedy makes the reload talk to the
// (scripted) HAProxy management API as a real reload does.
func render(marker string, endpoint bool) []byte {
	var b strings.Builder
	fmt.Fprintf(&b, "global:\n  remedies:\n    - name: %q\n      enabled: false\n      config:\n        fixed_response:\n          status_code: 418\n", marker)
	fmt.Fprintf(&b, "  diagnosis:\n    - name: %q\n      enabled: false\n      config:\n        har_exporter:\n          transaction_max_size: 1000\n          obfuscate:\n            enabled: false\n      export: file\n", "d-"+marker)
	if endpoint {
		fmt.Fprintf(&b, "endpoints:\n  - url: h.com/a\n    method: GET\n    remedies:\n      - name: %q\n        enabled: true\n        config:\n          fixed_response:\n            status_code: 429\n", "e-"+marker)
	}
	fmt.Fprintf(&b, "exporters:\n  file:\n    file_dir: %s\n    file_name: out.log\n", scratch)
	return []byte(b.String())
}

const emptySig = "<no policies>"

// sigOf is what the harness can observe of a version: the marker and whether the
// diagnosis plugins are still there (a diagnosis-free revert drops them).
func sigOf(d *config.PoliciesData) string {
	if d == nil {
		return "<nil>"
	}
	if len(d.Config.Global.Remedies) == 0 {
		return emptySig
	}
	return fmt.Sprintf("%s|diag=%d", d.Config.Global.Remedies[0].Name, len(d.Config.Global.Diagnosis))
}

func sig(marker string, withDiagnosis bool) string {
	if withDiagnosis {
		return marker + "|diag=1"
	}
	return marker + "|diag=0"
}

// ---- the accessor under test plus the reference model --------------------------

type pin struct {
	t0      time.Time
	ver     int // index into env.vers
	ticksAt int
	last    time.Time // the request, or the latest look-up at or after the retention (which may anchor the id afresh)
}

type obs struct {
	At   string `json:"at"`
	What string `json:"what"`
	Got  string `json:"got,omitempty"`
}

type env struct {
	clk     *caseClock
	acc     *config.TxnPoliciesAccessor
	seq     int
	vers    []string // signature of every version, in creation order; the last one is current
	loaded  string   // marker of the last successfully read policies file (what the reverts restore)
	pins    map[string]*pin
	ticks   int
	checked bool // vacuum owner verified
	classes map[string]int
	trace   []obs
	nt      bool
	extra   []string // ids of the transactions of "burst" events
	stamp   bool     // hist.Stamp
}

func newEnv() (*env, error) {
	e := &env{pins: map[string]*pin{}, classes: map[string]int{}}
	e.clk = &caseClock{Clock: vclock.New(start)}
	e.clk.SettleTimeout = 20 * time.Second
	engine.SetClock(e.clk)
	tp.setRefuse(false)
	m := e.marker()
	if err := os.WriteFile(polPath, render(m, false), 0o644); err != nil {
		return nil, infra("%v", err)
	}
	res, err := config.BuildInitialFromFile()
	if err != nil {
		return nil, infra("cannot build the policies accessor: %v", err)
	}
	e.acc = res.Accessor
	e.vers = []string{sig(m, true)}
	e.loaded = m
	if got := sigOf(e.acc.GetCurrentPoliciesData()); got != e.vers[0] {
		return nil, infra("initial policies read back as %q, want %q", got, e.vers[0])
	}
	return e, nil
}

// close ends the goroutines of the case: they wake up once and leave.
func (e *env) close() {
	e.clk.dead.Store(true)
	e.clk.Advance(1000 * time.Hour)
}

// writePol writes a revision of policies.yaml the way the case deploys its files.
func (e *env) writePol(b []byte) error {
	if err := os.WriteFile(polPath, b, 0o644); err != nil {
		return err
	}
	if e.stamp {
		return os.Chtimes(polPath, start, start)
	}
	return nil
}

func (e *env) marker() string {
	e.seq++
	return fmt.Sprintf("v%d", e.seq)
}

func (e *env) off() string { return e.clk.Now().Sub(start).String() }

func (e *env) note(what, got string) {
	if len(e.trace) < 200 {
		e.trace = append(e.trace, obs{At: e.off(), What: what, Got: got})
	}
}

// settleStarts waits until every vacuum loop that the events so far must have
// started has armed its first timer, so that the tick grid is a function of the
// history alone.
func (e *env) settleStarts() error {
	started := 0
	if len(e.pins) > 0 {
		started++
	}
	if len(e.vers) > 1 {
		started++
	}
	if started == 0 {
		return nil
	}
	if err := e.clk.WaitRegistrations(vacOwner, started+e.ticks); err != nil {
		owners := []string{}
		for _, p := range e.clk.Pending() {
			owners = append(owners, p.Owner)
		}
		return infra("vacuum loops did not arm their timers (%v); pending owners: %v", err, owners)
	}
	if !e.checked {
		found := false
		for _, p := range e.clk.Pending() {
			if strings.Contains(p.Owner, vacOwner) { // any function of the vacuum package: how its loop is called is its own business
				found = true
			}
		}
		if !found {
			return infra("no pending timer of a vacuum loop after the first pin")
		}
		e.checked = true
	}
	return nil
}

func (e *env) advance(d time.Duration) error {
	fired, err := e.clk.AdvanceSettle(d, vacOwner)
	if err != nil {
		return infra("%v", err)
	}
	for _, f := range fired {
		if strings.Contains(f.Owner, vacOwner) {
			e.ticks++
			e.classes["vacuum-pass"]++
		}
	}
	return nil
}

func contains(set []string, s string) bool {
	for _, x := range set {
		if x == s {
			return true
		}
	}
	return false
}

// lookup performs GetTxnPoliciesData(id) and judges the result.
func (e *env) lookup(id string, side string) error {
	now := e.clk.Now()
	got := sigOf(e.acc.GetTxnPoliciesData(config.TxnID(id)))
	e.note(side+" "+fmt.Sprintf("%q", id), got)
	cur := len(e.vers) - 1
	p := e.pins[id]
	if p != nil && now.Sub(p.t0) >= retention {
		defer func() { p.last = now }() // any look-up from the retention instant on may be the one that anchors the id afresh
	}
	if p == nil {
		e.pins[id] = &pin{t0: now, ver: cur, ticksAt: e.ticks, last: now}
		if cur > 0 {
			e.classes["first-lookup:after-a-reload"]++
		} else {
			e.classes["first-lookup:initial-version"]++
		}
		if got != e.vers[cur] {
			if got == emptySig {
				return fmt.Errorf("%s of new transaction %q at +%s got the empty fallback; current version is %q", side, id, e.off(), e.vers[cur])
			}
			return fmt.Errorf("%s of new transaction %q at +%s was given %q; the current version is %q", side, id, e.off(), got, e.vers[cur])
		}
		return e.settleStarts()
	}
	age := now.Sub(p.t0)
	switch {
	case age < retention:
		changed := cur > p.ver
		vac := e.ticks > p.ticksAt
		switch {
		case changed && vac:
			e.classes["lookup:pin-live,reloaded,vacuumed (non-trivial)"]++
			e.nt = true
		case changed:
			e.classes["lookup:pin-live,reloaded"]++
		default:
			e.classes["lookup:pin-live,no-reload"]++
		}
		if changed && age >= retention-time.Second {
			e.classes["lookup:pin-live,reloaded,last-second"]++
		}
		if changed && cur-p.ver >= 2 {
			e.classes["lookup:pin-live,>=2-versions-behind"]++
		}
		if got != e.vers[p.ver] {
			what := fmt.Sprintf("was given %q", got)
			if got == emptySig {
				what = "got the empty fallback"
			}
			return fmt.Errorf("%s of transaction %q at +%s (%s after its request, %d version(s) and %d vacuum pass(es) later) %s; it was pinned to %q",
				side, id, e.off(), age, cur-p.ver, e.ticks-p.ticksAt, what, e.vers[p.ver])
		}
	default:
		// at or beyond the retention instant the statement is silent: the pinned
		// version, the current one or any version in between is accepted
		ok := contains(e.vers[p.ver:], got)
		switch {
		case age == retention:
			e.classes["lookup:exactly-at-retention"]++
		case got == e.vers[p.ver] && cur > p.ver:
			e.classes["lookup:after-retention,still-pinned-version"]++
		case cur > p.ver:
			e.classes["lookup:after-retention,newer-version"]++
		default:
			e.classes["lookup:after-retention,no-reload"]++
		}
		if !ok {
			return fmt.Errorf("%s of transaction %q at +%s (%s after its request) was given %q, which is neither its version %q nor a later one %v",
				side, id, e.off(), age, got, e.vers[p.ver], e.vers[p.ver:])
		}
	}
	return nil
}

func parse(raw []byte) (*config.PoliciesData, error) {
	res, err := configuration.UnmarshalPolicyRawData[sharedConfig.PoliciesConfig](raw)
	if err != nil {
		return nil, err
	}
	return config.BuildPolicyData(res.UnmarshaledData, false)
}

// apply performs the accessor calls of one policy change and returns the
// signatures of the versions it created, judged by the reported outcome alone.
// It touches only e.seq and e.loaded.
func (e *env) apply(how string, endpoint bool) (added []string, err error, ierr error) {
	switch how {
	case "data": // a new PoliciesData handed to UpdatePoliciesData
		m := e.marker()
		pd, perr := parse(render(m, endpoint))
		if perr != nil {
			return nil, nil, infra("generated policies rejected: %v", perr)
		}
		if err = e.acc.UpdatePoliciesData(pd, false); err == nil {
			added = append(added, sig(m, true))
		}
	case "file": // policies.yaml rewritten, then ReloadFromFile (POST /apply_policies without a body)
		m := e.marker()
		if werr := e.writePol(render(m, endpoint)); werr != nil {
			return nil, nil, infra("%v", werr)
		}
		err = e.acc.ReloadFromFile()
		e.loaded = m
		if err == nil {
			added = append(added, sig(m, true))
		}
	case "raw": // POST /apply_policies with a body: UpdateRawData, then ReloadFromFile
		m := e.marker()
		if err = e.acc.UpdateRawData(render(m, endpoint)); err == nil {
			added = append(added, sig(m, true))
			if err = e.acc.ReloadFromFile(); err == nil {
				added = append(added, sig(m, true))
			}
			e.loaded = m
		}
	case "bad": // unreadable policies.yaml: the reload must fail and change nothing
		if werr := e.writePol([]byte("global: [unclosed\n  - {")); werr != nil {
			return nil, nil, infra("%v", werr)
		}
		if err = e.acc.ReloadFromFile(); err == nil {
			return nil, nil, infra("an unparsable policies file was loaded without error")
		}
	case "refused": // HAProxy refuses the endpoint update: UpdatePoliciesData fails and changes nothing
		m := e.marker()
		pd, perr := parse(render(m, true))
		if perr != nil {
			return nil, nil, infra("generated policies rejected: %v", perr)
		}
		tp.setRefuse(true)
		err = e.acc.UpdatePoliciesData(pd, false)
		tp.setRefuse(false)
		if err == nil {
			added = append(added, sig(m, true))
		}
	case "revert-ll":
		if err = e.acc.RevertToLastLoaded(); err == nil {
			added = append(added, sig(e.loaded, true))
		}
	case "revert-df":
		if err = e.acc.RevertToDiagnosisFree(); err == nil {
			added = append(added, sig(e.loaded, false))
		}
	default:
		return nil, nil, infra("unknown reload kind %q", how)
	}
	return added, err, nil
}

// reload performs one policy change and updates the model from the reported outcome.
func (e *env) reload(how string, endpoint bool) error {
	added, err, ierr := e.apply(how, endpoint)
	if ierr != nil {
		return ierr
	}
	e.vers = append(e.vers, added...)
	if err != nil {
		e.classes["reload:"+how+":failed"]++
		e.note("reload "+how, "error: "+firstLine(err.Error()))
	} else {
		e.classes["reload:"+how+":ok"]++
		e.note("reload "+how, e.vers[len(e.vers)-1])
		if how == "bad" || how == "refused" {
			e.classes["reload:unexpected-success"]++
		}
	}
	if len(added) > 0 {
		if got := sigOf(e.acc.GetCurrentPoliciesData()); got != e.vers[len(e.vers)-1] {
			return fmt.Errorf("after reload %s at +%s the current policies are %q, want %q", how, e.off(), got, e.vers[len(e.vers)-1])
		}
	}
	return e.settleStarts()
}

func firstLine(s string) string {
	if i := strings.IndexByte(s, '\n'); i >= 0 {
		s = s[:i]
	}
	if len(s) > 120 {
		s = s[:120]
	}
	return s
}

// ---- histories ------------------------------------------------------------------

type event struct {
	K        string `json:"k"`                  // req | resp | reload | adv | until (= advance to the boundary, then resp) | reuse (a new transaction with the id of Txn, once the retention plus a vacuum period have passed since its request (or since a look-up that came after its retention); else a response of Txn)
	Txn      int    `json:"txn,omitempty"`      // index into hist.IDs
	How      string `json:"how,omitempty"`      // reload kind
	Endpoint bool   `json:"endpoint,omitempty"` // reload carries an enabled endpoint remedy (HAProxy calls)
	Ms       int64  `json:"ms,omitempty"`       // adv: duration; until: offset from the transaction's request + 30 s
	N        int    `json:"n,omitempty"`        // burst: that many further transactions send their request at this instant
}

type hist struct {
	IDs    []string `json:"ids"`
	Events []event  `json:"events"`
	// Stamp: every revision of policies.yaml carries the same modification time (files deployed with preserved
	// or normalised time stamps: cp -p, rsync -t, archives, reproducible artefacts); revisions v1..v9, v10..v99
	// have the same size anyway
	Stamp bool `json:"same_mtime,omitempty"`
}

type failure struct {
	Hist  any   `json:"history"`
	Trace []obs `json:"trace"`
}

func (e *env) run(h hist, probe bool) error {
	if h.Stamp {
		e.stamp = true
		e.classes["case:every revision of policies.yaml with the same modification time"]++
		if err := os.Chtimes(polPath, start, start); err != nil {
			return infra("%v", err)
		}
	}
	for i, v := range h.Events {
		var err error
		switch v.K {
		case "req":
			e.classes["ev:request"]++
			err = e.lookup(h.IDs[v.Txn], "request")
		case "burst": // a wave of traffic: N transactions of their own (they are answered in the closing probe)
			e.classes["ev:burst"]++
			for j := 0; j < v.N && err == nil; j++ {
				id := fmt.Sprintf("wave%d-%d", i, j)
				e.extra = append(e.extra, id)
				err = e.lookup(id, "request")
			}
			if len(e.extra) >= 128 {
				e.classes["case:>=128 pins of a wave"]++
			}
		case "resp":
			e.classes["ev:response"]++
			if e.pins[h.IDs[v.Txn]] == nil {
				return infra("response for a transaction that was never requested")
			}
			err = e.lookup(h.IDs[v.Txn], "response")
		case "reuse":
			// the id of an earlier transaction comes again (x-lunar-req-id is client text; retried calls re-send it):
			// once the earlier transaction's retention and a further vacuum period are over it is a new transaction
			id := h.IDs[v.Txn]
			if p := e.pins[id]; p == nil || e.clk.Now().Sub(p.last) < retention+vacuumTick+time.Second {
				if p == nil {
					return infra("reuse of a transaction that was never requested")
				}
				e.classes["ev:response"]++
				err = e.lookup(id, "response")
				break
			}
			delete(e.pins, id)
			e.classes["ev:request that re-uses the id of a transaction whose retention is over"]++
			err = e.lookup(id, "request (id re-used)")
		case "reload":
			e.classes["ev:reload"]++
			err = e.reload(v.How, v.Endpoint)
		case "adv":
			e.classes["ev:advance"]++
			err = e.advance(time.Duration(v.Ms) * time.Millisecond)
		case "until": // advance to the transaction's request + 30 s + offset, then answer it
			p := e.pins[h.IDs[v.Txn]]
			if p == nil {
				return infra("until for a transaction that was never requested")
			}
			d := p.t0.Add(retention).Add(time.Duration(v.Ms) * time.Millisecond).Sub(e.clk.Now())
			if d > 0 {
				e.classes["ev:advance-to-retention-boundary+response"]++
				if err = e.advance(d); err != nil {
					return err
				}
			} else {
				e.classes["ev:response"]++
			}
			err = e.lookup(h.IDs[v.Txn], "response")
		default:
			return infra("unknown event %q", v.K)
		}
		if err != nil {
			return err
		}
	}
	if !probe {
		return nil
	}
	// closing probe: every transaction is answered once more, and a brand-new
	// transaction must see the current version
	for _, id := range append(append([]string{}, h.IDs...), e.extra...) {
		if e.pins[id] != nil {
			if err := e.lookup(id, "closing response"); err != nil {
				return err
			}
		}
	}
	return e.lookup("closing-probe", "closing request")
}

var advMs = []int64{1, 999, 1000, 1000, 1000, 2000, 2000, 4000, 4000, 4999, 5000, 5000, 5001, 6000, 6000, 10000, 10000, 24000, 29000, 29999, 30000, 30001, 31000, 40000}
var untilMs = []int64{-5001, -5000, -1000, -1000, -1, -1, 0, 0, 1, 1000, 4999, 5000, 5001, 10000}
var reloadKinds = []string{"data", "data", "data", "file", "file", "raw", "revert-ll", "revert-df", "revert-df", "bad", "refused"}

// transaction ids: unique per transaction (HAProxy's unique-id), but close to one
// another — prefixes, case variants, blanks — so that a pin keyed by anything
// coarser than the exact id shows.
var genID = rapid.OneOf(
	rapid.SampledFrom([]string{"1", "11", "111", "1 ", " 1", "01", "a", "A", "ab", "aB", "a-b", "a_b", "0", "00",
		"7f000001:8000_0a000001:1f90_65000000_0001:0001", "7f000001:8000_0a000001:1f90_65000000_0001:0002", "7F000001:8000_0A000001:1F90_65000000_0001:0001"}),
	rapid.StringMatching(`[0-9a-f]{1,3}`),
	rapid.StringMatching(`[ -~]{1,12}`),
)

func genHist(maxEvents int) *rapid.Generator[hist] {
	return rapid.Custom(func(t *rapid.T) hist {
		n := rapid.IntRange(1, maxEvents).Draw(t, "n")
		evs := make([]event, 0, n)
		txns := 0
		// one history in four has a wave of traffic somewhere: more transactions inside the retention than a
		// handful (the pins of a busy gateway number in the thousands)
		waveAt := -1
		if rapid.IntRange(0, 3).Draw(t, "wave") == 0 {
			waveAt = rapid.IntRange(0, n-1).Draw(t, "waveAt") / 2
		}
		// one history in six starts with a transaction that straddles a reload and is answered late, whose id comes
		// again once its retention and a vacuum period are over, in front of another reload, and is answered a good
		// while later - still inside the retention of the second transaction
		if rapid.IntRange(0, 5).Draw(t, "id-comes-again") == 0 {
			d := rapid.SampledFrom([]int64{10000, 19000, 24000}).Draw(t, "late")
			evs = append(evs, event{K: "req", Txn: 0}, event{K: "adv", Ms: 1000}, event{K: "reload", How: "data"}, event{K: "adv", Ms: d}, event{K: "resp", Txn: 0},
				event{K: "adv", Ms: 36000 - 1000 - d + rapid.SampledFrom([]int64{0, 0, 1000}).Draw(t, "slack")}, event{K: "reuse", Txn: 0},
				event{K: "adv", Ms: 1000}, event{K: "reload", How: rapid.SampledFrom([]string{"data", "file"}).Draw(t, "how2")}, event{K: "adv", Ms: d}, event{K: "resp", Txn: 0})
			txns = 1
			n += len(evs)
		}
		for len(evs) < n {
			if len(evs) == waveAt {
				evs = append(evs, event{K: "burst", N: rapid.SampledFrom([]int{40, 127, 128, 129, 150, 260, 600}).Draw(t, "waveN")})
				continue
			}
			kinds := []string{"req", "req", "reload", "reload", "adv", "adv", "adv"}
			if txns > 0 {
				kinds = []string{"resp", "resp", "resp", "resp", "adv", "adv", "adv", "reload", "reload", "reload", "req", "req", "until", "reuse"}
			}
			switch k := rapid.SampledFrom(kinds).Draw(t, "kind"); k {
			case "req":
				evs = append(evs, event{K: "req", Txn: txns})
				txns++
			case "resp":
				evs = append(evs, event{K: "resp", Txn: rapid.IntRange(0, txns-1).Draw(t, "txn")})
			case "reuse":
				evs = append(evs, event{K: "reuse", Txn: rapid.IntRange(0, txns-1).Draw(t, "txn")})
			case "until":
				evs = append(evs, event{K: "until", Txn: rapid.IntRange(0, txns-1).Draw(t, "txn"), Ms: rapid.SampledFrom(untilMs).Draw(t, "off")})
			case "reload":
				how := rapid.SampledFrom(reloadKinds).Draw(t, "how")
				ep := false
				if how == "data" || how == "file" || how == "raw" {
					ep = rapid.IntRange(0, 3).Draw(t, "endpoint") == 0
				}
				evs = append(evs, event{K: "reload", How: how, Endpoint: ep})
			case "adv":
				evs = append(evs, event{K: "adv", Ms: rapid.SampledFrom(advMs).Draw(t, "ms")})
			}
		}
		ids := rapid.SliceOfNDistinct(genID, txns, txns, func(s string) string { return s }).Draw(t, "ids")
		return hist{IDs: ids, Events: evs, Stamp: rapid.IntRange(0, 2).Draw(t, "stamp") == 1}
	})
}

func report(t interface{ Fatalf(string, ...any) }, r *ev.Recorder, e *env, h any, err error) {
	if _, isInfra := err.(infraErr); isInfra {
		fmt.Println(err.Error())
		t.Fatalf("%v", err)
	}
	var tr []obs
	if e != nil {
		tr = e.trace
	}
	t.Fatalf("%s", r.Fail(failure{Hist: h, Trace: tr}, "%v", err))
}

// TestHistories: sequential histories against the snapshot-isolation model.
func TestHistories(t *testing.T) {
	r := ev.New(t, "C11")
	maxEvents := 40
	rapid.Check(t, func(rt *rapid.T) {
		h := genHist(maxEvents).Draw(rt, "history")
		level := loglevel.Gen().Draw(rt, "log level")
		r.Class("log level " + level)
		defer loglevel.Set(level)()
		r.Case()
		e, err := newEnv()
		if err != nil {
			report(rt, r, nil, h, err)
		}
		defer e.close()
		err = e.run(h, true)
		for c, n := range e.classes {
			r.ClassN(c, int64(n))
		}
		if err != nil {
			report(rt, r, e, h, err)
		}
		if e.nt {
			r.Class("case:non-trivial")
			r.NonTrivial(ev.JSON(h), func() any { return h })
		}
	})
	if n := tp.count(); n > 0 {
		r.ClassN("scripted-haproxy-calls", int64(n))
	}
	r.Note(fmt.Sprintf("goroutines alive after the last case: %d", runtime.NumGoroutine()))
}

// ---- bounded-exhaustive boundary grid ---------------------------------------------

// TestBoundaryGrid enumerates, completely, the grid
//
//	phase of the request inside the vacuum tick period  x  request->reload distance
//	x  kind of reload  x  optional second reload  x  request->response distance
//
// with every distance taken from the instants around the vacuum tick (5 s) and the
// retention period (30 s) at 1 ms and 1 s resolution.
func TestBoundaryGrid(t *testing.T) {
	r := ev.New(t, "C11")
	runOne := func(h hist) {
		r.Case()
		e, err := newEnv()
		if err != nil {
			report(t, r, nil, h, err)
		}
		err = e.run(h, true)
		e.close()
		for c, n := range e.classes {
			r.ClassN(c, int64(n))
		}
		if err != nil {
			report(t, r, e, h, err)
		}
		if e.nt {
			r.NonTrivial(ev.JSON(h), func() any { return h })
		}
	}
	if p := os.Getenv("VERIF_REPLAY"); p != "" && !strings.HasSuffix(p, ".fail") {
		b, err := os.ReadFile(p)
		if err != nil {
			t.Fatalf("VERIF-INFRA: cannot read replay %s: %v", p, err)
		}
		var f struct {
			Failure struct {
				Case struct {
					Hist hist `json:"history"`
				} `json:"case"`
			} `json:"failure"`
		}
		if err := json.Unmarshal(b, &f); err != nil || len(f.Failure.Case.Hist.Events) == 0 {
			t.Fatalf("VERIF-INFRA: replay %s holds no history (%v)", p, err)
		}
		runOne(f.Failure.Case.Hist)
		return
	}
	r.SetExhaustive(true)
	phases := []int64{0, 1, 2500, 4999}
	d1s := []int64{0, 1, 1000, 4999, 5000, 5001, 10000, 25001, 29000, 29999}
	totals := []int64{0, 1000, 5001, 25000, 29000, 29999, 30000, 30001, 31000, 34999, 35000, 35001, 36000, 40000, 61000, 66000}
	if ev.Tier() == "thorough" {
		phases = []int64{0, 1, 999, 1000, 2500, 4000, 4999}
		d1s = append(d1s, 2500, 15000, 20000, 24999, 25000)
		totals = append(totals, 1, 4999, 5000, 10000, 20000, 28999, 29001, 30999, 31001, 39999, 40001, 59999, 60000, 60001, 65000, 65001)
	}
	r.Note(fmt.Sprintf("grid: request phase in the tick period %v ms x request->reload %v ms x reload kind {data,file,raw,revert-df} x {one reload, a second reload half-way} x request->response %v ms", phases, d1s, totals))
	kinds := []string{"data", "file", "raw", "revert-df"}
	for _, phase := range phases {
		for _, d1 := range d1s {
			for _, kind := range kinds {
				for _, second := range []bool{false, true} {
					for _, total := range totals {
						if total < d1 {
							continue
						}
						// a warm-up transaction and a warm-up reload at +0 fix the tick grids of both vacuum loops;
						// the subject's request comes `phase` later
						evs := []event{{K: "req", Txn: 0}, {K: "reload", How: "data"}, {K: "adv", Ms: phase}, {K: "req", Txn: 1}, {K: "adv", Ms: d1}, {K: "reload", How: kind}}
						rest := total - d1
						if second {
							step := rest / 2
							evs = append(evs, event{K: "adv", Ms: step}, event{K: "reload", How: "data"})
							rest -= step
						}
						evs = append(evs, event{K: "adv", Ms: rest}, event{K: "resp", Txn: 1}, event{K: "req", Txn: 2}, event{K: "resp", Txn: 0})
						runOne(hist{IDs: []string{"w", "s", "n"}, Events: evs})
					}
				}
			}
		}
	}
}

// ---- burst: look-ups, reloads and vacuum passes on separate goroutines -----------------

type wop struct {
	New   bool `json:"new,omitempty"` // first look-up of a fresh transaction; otherwise another look-up of a known one
	Ref   int  `json:"ref,omitempty"` // which known transaction (modulo)
	Yield bool `json:"yield,omitempty"`
}

type rop struct {
	How   string `json:"how"`
	Yield bool   `json:"yield,omitempty"`
}

type burst struct {
	Prelude  hist    `json:"prelude"`
	Workers  [][]wop `json:"workers"`
	Reloads  []rop   `json:"reloads"`
	Advances []int64 `json:"advances_ms"`
	TailMs   int64   `json:"tail_ms"`
}

// result of one look-up made inside the burst
type lres struct {
	id     string
	first  bool
	a, b   time.Time // clock before / after the call
	lo, hi int64     // reloads finished before / started until the call returned
	got    string
}

// known is what the harness knows about a transaction that takes part in the burst
type known struct {
	id      string
	since   time.Time // a lower bound of its pin instant
	sig     string    // version observed at its first look-up
	minIdx  int       // index (into all) of the earliest version it may be pinned to
	checked bool
}

func genBurst() *rapid.Generator[burst] {
	return rapid.Custom(func(t *rapid.T) burst {
		var b burst
		b.Prelude = genHist(10).Draw(t, "prelude")
		w := rapid.IntRange(2, 4).Draw(t, "workers")
		for i := 0; i < w; i++ {
			n := rapid.IntRange(2, 10).Draw(t, "ops")
			ops := make([]wop, n)
			for j := range ops {
				ops[j] = wop{New: rapid.IntRange(0, 2).Draw(t, "new") == 0, Ref: rapid.IntRange(0, 7).Draw(t, "ref"), Yield: rapid.Bool().Draw(t, "yield")}
			}
			b.Workers = append(b.Workers, ops)
		}
		nr := rapid.IntRange(1, 6).Draw(t, "reloads")
		for i := 0; i < nr; i++ {
			b.Reloads = append(b.Reloads, rop{How: rapid.SampledFrom([]string{"data", "data", "data", "file", "revert-ll", "revert-df"}).Draw(t, "how"), Yield: rapid.Bool().Draw(t, "yield")})
		}
		// the clock moves less than the retention period during the burst, so every pin
		// made inside the burst is live until its end
		budget := int64(29000)
		na := rapid.IntRange(0, 6).Draw(t, "advances")
		for i := 0; i < na; i++ {
			d := rapid.SampledFrom([]int64{1, 1000, 4000, 5000, 5000, 5001, 6000, 10000}).Draw(t, "adv")
			if d > budget {
				continue
			}
			budget -= d
			b.Advances = append(b.Advances, d)
		}
		b.TailMs = rapid.SampledFrom([]int64{0, 1000, 6000, 31000, 36000}).Draw(t, "tail")
		return b
	})
}

func runBurst(e *env, b burst) error {
	// both vacuum loops must be running before goroutines are let loose: one
	// transaction and one reload up front
	pre := hist{IDs: append([]string{"burst-warm-up"}, b.Prelude.IDs...)}
	pre.Events = append(pre.Events, event{K: "req", Txn: 0}, event{K: "reload", How: "data"})
	for _, v := range b.Prelude.Events {
		if v.K == "req" || v.K == "resp" || v.K == "until" {
			v.Txn++
		}
		pre.Events = append(pre.Events, v)
	}
	if err := e.run(pre, false); err != nil {
		return err
	}
	// from here on the model of versions is kept by the reloader goroutine
	base := len(e.vers) - 1 // index of the version current when the burst starts
	all := append([]string(nil), e.vers...)
	okIdx := make([]int, len(b.Reloads)+1) // okIdx[k]: index in `all` of the current version once k reloads finished
	okIdx[0] = base

	nw := len(b.Workers)
	// every worker may look up every transaction of the prelude again (the request
	// handler, the response handler and the diagnosis worker of one transaction run
	// on different goroutines); transactions started inside the burst stay with
	// the worker that started them
	var shared []*known
	for _, id := range pre.IDs {
		if p := e.pins[id]; p != nil {
			shared = append(shared, &known{id: id, since: p.t0, sig: e.vers[p.ver], minIdx: p.ver})
		}
	}
	var started, done atomic.Int64
	results := make([][]lres, nw)
	gate := make(chan struct{})
	var wg sync.WaitGroup
	for w := 0; w < nw; w++ {
		wg.Add(1)
		go func(w int) {
			defer wg.Done()
			<-gate
			mine := append([]*known(nil), shared...)
			fresh := 0
			for _, op := range b.Workers[w] {
				var id string
				first := op.New || len(mine) == 0
				if first {
					id = fmt.Sprintf("burst/%d/%d", w, fresh)
					fresh++
				} else {
					id = mine[op.Ref%len(mine)].id
				}
				res := lres{id: id, first: first}
				res.a = e.clk.Now()
				res.lo = done.Load()
				res.got = sigOf(e.acc.GetTxnPoliciesData(config.TxnID(id)))
				res.hi = started.Load()
				res.b = e.clk.Now()
				results[w] = append(results[w], res)
				if first {
					mine = append(mine, &known{id: id})
				}
				if op.Yield {
					runtime.Gosched()
				}
			}
		}(w)
	}
	var rerr error
	relSig := make([]string, len(b.Reloads)) // "" = failed
	wg.Add(1)
	go func() {
		defer wg.Done()
		<-gate
		for k, op := range b.Reloads {
			started.Add(1)
			added, _, ierr := e.apply(op.How, false)
			if ierr != nil && rerr == nil {
				rerr = ierr
			}
			if len(added) > 0 {
				relSig[k] = added[0]
			}
			done.Add(1)
			if op.Yield {
				runtime.Gosched()
			}
		}
	}()
	close(gate)
	var aerr error
	for _, d := range b.Advances {
		if err := e.advance(time.Duration(d) * time.Millisecond); err != nil && aerr == nil {
			aerr = err
		}
		runtime.Gosched()
	}
	wg.Wait()
	if rerr != nil {
		return rerr
	}
	if aerr != nil {
		return aerr
	}
	for k, s := range relSig {
		if s != "" {
			all = append(all, s)
			e.vers = append(e.vers, s)
			e.classes["burst:reload:"+b.Reloads[k].How]++
			okIdx[k+1] = len(all) - 1
		} else {
			e.classes["burst:reload-failed"]++
			okIdx[k+1] = okIdx[k]
		}
	}

	// judge the observed results
	idx := map[string]*known{}
	for _, k := range shared {
		idx[k.id] = k
	}
	for w := range results {
		for _, res := range results[w] {
			k := idx[res.id]
			if res.first {
				// the version given to a new transaction was current at some instant of the call
				lo, hi := okIdx[res.lo], okIdx[res.hi]
				if !contains(all[lo:hi+1], res.got) {
					return fmt.Errorf("burst: first look-up of %q (after %d reloads had finished, before reload %d started) was given %q; the versions current during the call were %v",
						res.id, res.lo, res.hi+1, res.got, all[lo:hi+1])
				}
				if lo < hi {
					e.classes["burst:first-lookup-concurrent-with-reload"]++
				} else {
					e.classes["burst:first-lookup"]++
				}
				idx[res.id] = &known{id: res.id, since: res.a, sig: res.got, minIdx: lo}
				continue
			}
			if k == nil {
				return infra("burst bookkeeping: look-up of unknown %q", res.id)
			}
			cur := okIdx[res.lo]
			if res.b.Before(k.since.Add(retention)) {
				// the pin was live during the whole call
				if res.got != k.sig {
					return fmt.Errorf("burst: transaction %q (requested at or after +%s under %q) was given %q at +%s..+%s, inside the retention period (%d reload(s) finished meanwhile)",
						res.id, k.since.Sub(start), k.sig, res.got, res.a.Sub(start), res.b.Sub(start), res.lo)
				}
				if all[cur] != k.sig {
					e.classes["burst:lookup-pin-live,reloaded"]++
					if e.ticks > 0 {
						e.nt = true
					}
				} else {
					e.classes["burst:lookup-pin-live,same-version"]++
				}
			} else {
				hi := okIdx[res.hi]
				if !contains(all[k.minIdx:hi+1], res.got) {
					return fmt.Errorf("burst: transaction %q was given %q at +%s, which is neither its version %q nor a later one", res.id, res.got, res.b.Sub(start), k.sig)
				}
				e.classes["burst:lookup-past-retention"]++
			}
		}
	}
	// afterwards, sequentially: every transaction once more, then a new one, then the tail
	final := all[len(all)-1]
	again := func(stage string) error {
		now := e.clk.Now()
		for w := range results {
			for _, res := range results[w] {
				k := idx[res.id]
				if k == nil || k.checked {
					continue
				}
				k.checked = true
				got := sigOf(e.acc.GetTxnPoliciesData(config.TxnID(k.id)))
				if now.Before(k.since.Add(retention)) {
					if got != k.sig {
						return fmt.Errorf("%s: transaction %q (requested at or after +%s under %q) was given %q at +%s, inside the retention period", stage, k.id, k.since.Sub(start), k.sig, got, now.Sub(start))
					}
					e.classes["burst:after:pin-live"]++
				} else {
					if !contains(all[k.minIdx:], got) {
						return fmt.Errorf("%s: transaction %q was given %q at +%s, which is neither its version %q nor a later one", stage, k.id, got, now.Sub(start), k.sig)
					}
					e.classes["burst:after:past-retention"]++
				}
			}
		}
		for _, k := range idx {
			k.checked = false
		}
		got := sigOf(e.acc.GetTxnPoliciesData(config.TxnID("burst/" + stage)))
		if got != final {
			return fmt.Errorf("%s: a new transaction at +%s was given %q; the current version is %q", stage, now.Sub(start), got, final)
		}
		return nil
	}
	if err := again("after-burst"); err != nil {
		return err
	}
	if b.TailMs > 0 {
		if err := e.advance(time.Duration(b.TailMs) * time.Millisecond); err != nil {
			return err
		}
		if err := again("after-tail"); err != nil {
			return err
		}
	}
	return nil
}

// TestBurst: the same pin property from observed results only, with look-ups,
// reloads and clock advances (vacuum passes) running on separate goroutines.
func TestBurst(t *testing.T) {
	r := ev.New(t, "C11")
	rapid.Check(t, func(rt *rapid.T) {
		b := genBurst().Draw(rt, "burst")
		r.Case()
		e, err := newEnv()
		if err != nil {
			report(rt, r, nil, b, err)
		}
		defer e.close()
		err = runBurst(e, b)
		for c, n := range e.classes {
			r.ClassN(c, int64(n))
		}
		if err != nil {
			report(rt, r, e, b, err)
		}
		if e.nt {
			r.Class("case:non-trivial")
			r.NonTrivial(ev.JSON(b), func() any { return b })
		}
	})
}
