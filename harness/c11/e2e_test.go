package c11

// End-to-end unit: the real message handlers. A policy-mode HandlingDataManager is built once; requests and
// responses go through routing.Handler as SPOE messages (so the keys under which the handlers pin and resolve
// the version are the real ones), policy versions are swapped through the manager's accessor. The version a
// response is processed with is observed through a global retry remedy that only some versions enable: an
// in-condition response gets a modify_response action exactly when the transaction's version has the remedy.
// Transactions include retried attempts (fresh id, the first attempt's sequence id).

import (
	"fmt"
	"io"
	"net"
	"os"
	"strings"
	"sync"
	"testing"
	"time"

	"lunar/engine/routing"
	contextmanager "lunar/toolkit-core/context-manager"
	"lunar/toolkit-core/logging"

	spoe "github.com/negasus/haproxy-spoe-go/action"
	"github.com/negasus/haproxy-spoe-go/message"
	"github.com/negasus/haproxy-spoe-go/payload/kv"
	"github.com/negasus/haproxy-spoe-go/request"
	"github.com/rs/zerolog"
	"pgregory.net/rapid"

	"verif/harness/internal/ev"
)

var (
	e2eOnce    sync.Once
	e2eErr     error
	e2eData    *routing.HandlingDataManager
	e2eHandler routing.MessageHandler
	e2eVersion int
)

// failingRequestRemedy: the versions built while it is set carry a second global remedy that fails on every
// request (an authentication remedy whose account is not in the accounts section - the file passes validation);
// the request message is then answered with an error and no actions. The transaction goes on all the same: the
// proxy forwards the request and sends the response message, which must be handled with the request's version.
var failingRequestRemedy bool

func renderRetry(marker string, retryOn bool) []byte {
	var b strings.Builder
	b.WriteString("global:\n  remedies:\n")
	if failingRequestRemedy {
		fmt.Fprintf(&b, "    - name: %q\n      enabled: true\n      config:\n        authentication:\n          account: billing\n", "auth-"+marker)
	}
	fmt.Fprintf(&b, "    - name: %q\n      enabled: %v\n      config:\n        retry:\n          attempts: 1000\n          initial_cooldown_seconds: 1\n          cooldown_multiplier: 1\n          conditions:\n            status_code:\n              - from: 500\n                to: 599\n", "retry-"+marker, retryOn)
	fmt.Fprintf(&b, "exporters:\n  file:\n    file_dir: %s\n    file_name: out.log\n", scratch)
	return []byte(b.String())
}

func e2eSetup() {
	e2eOnce.Do(func() {
		for k, v := range map[string]string{
			"TENANT_NAME": "verif", "LUNAR_STREAMS_ENABLED": "false",
			"DIAGNOSIS_FAILSAFE_MIN_SEC_BETWEEN_CALLS": "3600", "DIAGNOSIS_FAILSAFE_CONSECUTIVE_N": "100000",
			"DIAGNOSIS_FAILSAFE_MIN_STABLE_SEC": "3600", "DIAGNOSIS_FAILSAFE_COOLDOWN_SEC": "3600",
			"DIAGNOSIS_FAILSAFE_HEALTHY_SESSION_RATE": "0", "DIAGNOSIS_FAILSAFE_HEALTHY_MAX_LAST_SESSION_SEC": "5",
			"DISCOVERY_STATE_LOCATION": scratch + "/discovery.json", "REMEDY_STATE_LOCATION": scratch + "/remedy.json",
		} {
			os.Setenv(k, v)
		}
		if err := os.WriteFile(polPath, renderRetry("v0", true), 0o644); err != nil {
			e2eErr = err
			return
		}
		if ln, err := net.Listen("tcp", "127.0.0.1:5140"); err == nil {
			go func() {
				for {
					c, err := ln.Accept()
					if err != nil {
						return
					}
					go io.Copy(io.Discard, c)
				}
			}()
		}
		e2eErr = func() (err error) {
			defer func() {
				if r := recover(); r != nil {
					err = fmt.Errorf("panic in manager setup: %v", r)
				}
			}()
			contextmanager.Get().SetRealClock()
			tw := logging.ConfigureLogger("lunar-engine", false, contextmanager.Get().GetClock())
			if os.Getenv("VERIF_LOG") == "" {
				zerolog.SetGlobalLevel(zerolog.Disabled)
			}
			e2eData = routing.NewHandlingDataManager(10*time.Second, nil)
			if err := e2eData.Setup(tw); err != nil {
				return err
			}
			e2eHandler = routing.Handler(e2eData)
			return nil
		}()
	})
}

func e2eSend(name string, id, seq string, status int64) (modified bool) {
	k := kv.NewKV()
	k.Add("id", id)
	k.Add("sequence_id", seq)
	k.Add("method", "GET")
	k.Add("scheme", "https")
	k.Add("url", "h.com/x")
	k.Add("path", "/x")
	k.Add("query", "")
	k.Add("headers", "host: h.com\r\n\r\n") // the proxy's req.hdrs dump: CRLF-terminated lines and the closing empty line
	k.Add("body", []byte(""))
	if name == "lunar-on-response" {
		k.Add("status", status)
	}
	msgs := message.Messages{&message.Message{Name: name, KV: k}}
	req := &request.Request{Messages: &msgs}
	e2eHandler(req)
	for _, a := range req.Actions {
		if a.Type == spoe.TypeSetVar && a.Name == "modify_response" {
			return true
		}
	}
	return false
}

type e2eEvent struct {
	Op    string `json:"op"` // req | resp | reload | req-again (the request message of an open transaction arrives a second time)
	Txn   int    `json:"txn,omitempty"`
	Retry bool   `json:"retry_on,omitempty"` // reload: does the new version enable the retry remedy
	// FailReq (reload): the new version also carries a remedy that fails on every request
	FailReq bool `json:"requests_fail_in_a_remedy,omitempty"`
}

type e2eTxn struct {
	Seq     int  `json:"sequence"` // index of the sequence it belongs to
	Attempt bool `json:"retried_attempt"`
}

type e2eCase struct {
	Txns   []e2eTxn   `json:"transactions"`
	Events []e2eEvent `json:"events"`
}

func genE2E() *rapid.Generator[e2eCase] {
	return rapid.Custom(func(t *rapid.T) e2eCase {
		c := e2eCase{}
		n := rapid.IntRange(2, 6).Draw(t, "ntxn")
		nseq := 0
		for i := 0; i < n; i++ {
			if nseq > 0 && rapid.IntRange(0, 2).Draw(t, "attempt") > 0 {
				c.Txns = append(c.Txns, e2eTxn{Seq: rapid.IntRange(0, nseq-1).Draw(t, "seq"), Attempt: true})
			} else {
				c.Txns = append(c.Txns, e2eTxn{Seq: nseq})
				nseq++
			}
		}
		// each transaction: request once, response once, in generated order with reloads in between
		pendingReq, pendingResp := []int{}, []int{}
		for i := range c.Txns {
			pendingReq = append(pendingReq, i)
		}
		for len(pendingReq)+len(pendingResp) > 0 {
			switch k := rapid.IntRange(0, 9).Draw(t, "ev"); {
			case k < 3:
				c.Events = append(c.Events, e2eEvent{Op: "reload", Retry: rapid.Bool().Draw(t, "retry"), FailReq: rapid.IntRange(0, 2).Draw(t, "fail-req") == 0})
			case k == 9 && len(pendingResp) > 0:
				// the request message of a transaction that is under way is delivered once more (the statement
				// speaks of the version current when the request was FIRST seen)
				c.Events = append(c.Events, e2eEvent{Op: "req-again", Txn: pendingResp[rapid.IntRange(0, len(pendingResp)-1).Draw(t, "again")]})
			case k < 6 && len(pendingReq) > 0:
				i := pendingReq[0] // requests in transaction order (a retried attempt comes after the first one)
				pendingReq = pendingReq[1:]
				pendingResp = append(pendingResp, i)
				c.Events = append(c.Events, e2eEvent{Op: "req", Txn: i})
			case len(pendingResp) > 0:
				j := rapid.IntRange(0, len(pendingResp)-1).Draw(t, "which")
				c.Events = append(c.Events, e2eEvent{Op: "resp", Txn: pendingResp[j]})
				pendingResp = append(pendingResp[:j], pendingResp[j+1:]...)
			}
		}
		return c
	})
}

var e2eCaseNo int

func TestMessageHandlersE2E(t *testing.T) {
	e2eSetup()
	if e2eErr != nil {
		fmt.Println("VERIF-INFRA: manager setup failed:", e2eErr)
		t.Fatalf("%v", e2eErr)
	}
	r := ev.New(t, "C11")
	rapid.Check(t, func(t *rapid.T) {
		c := genE2E().Draw(t, "case")
		r.Case()
		e2eCaseNo++
		// a known starting version with the remedy on
		e2eVersion++
		pd, err := parse(renderRetry(fmt.Sprintf("v%d", e2eVersion), true))
		if err != nil {
			fmt.Println("VERIF-INFRA: cannot build policies:", err)
			t.Fatalf("%v", err)
		}
		if err := e2eData.GetTxnPoliciesAccessor().UpdatePoliciesData(pd, false); err != nil {
			fmt.Println("VERIF-INFRA: cannot install policies:", err)
			t.Fatalf("%v", err)
		}
		current := true                 // does the current version enable the remedy
		pinned := map[int]bool{}        // txn -> remedy enabled in the version current at its request
		seqState := map[int]bool{}      // sequence -> the retry remedy holds state for it
		reloadBetween := map[int]bool{} // txn -> a reload happened between request and response
		open := map[int]bool{}
		nontrivial := false
		id := func(i int) (string, string) {
			seq := fmt.Sprintf("c%d-s%d", e2eCaseNo, c.Txns[i].Seq)
			if c.Txns[i].Attempt {
				return fmt.Sprintf("c%d-t%d", e2eCaseNo, i), seq
			}
			return seq, seq
		}
		for _, e := range c.Events {
			switch e.Op {
			case "reload":
				e2eVersion++
				failingRequestRemedy = e.FailReq
				if e.FailReq {
					r.Class("version whose requests fail in a remedy")
				}
				pd, err := parse(renderRetry(fmt.Sprintf("v%d", e2eVersion), e.Retry))
				failingRequestRemedy = false
				if err != nil {
					fmt.Println("VERIF-INFRA: cannot build policies:", err)
					t.Fatalf("%v", err)
				}
				if err := e2eData.GetTxnPoliciesAccessor().UpdatePoliciesData(pd, false); err != nil {
					fmt.Println("VERIF-INFRA: cannot install policies:", err)
					t.Fatalf("%v", err)
				}
				if current != e.Retry {
					for i := range open {
						reloadBetween[i] = true
					}
				}
				current = e.Retry
			case "req":
				tid, seq := id(e.Txn)
				e2eSend("lunar-on-request", tid, seq, 0)
				pinned[e.Txn] = current
				open[e.Txn] = true
			case "req-again":
				tid, seq := id(e.Txn)
				e2eSend("lunar-on-request", tid, seq, 0)
				if reloadBetween[e.Txn] {
					r.Class("request message seen a second time after a reload that changed the remedy set")
				}
			case "resp":
				tid, seq := id(e.Txn)
				got := e2eSend("lunar-on-response", tid, seq, 500)
				delete(open, e.Txn)
				sq := c.Txns[e.Txn].Seq
				want := pinned[e.Txn] && (!c.Txns[e.Txn].Attempt || seqState[sq])
				if want {
					seqState[sq] = true
				}
				if reloadBetween[e.Txn] {
					nontrivial = true
					r.Class("response after a reload that changed the remedy set")
				}
				if c.Txns[e.Txn].Attempt {
					r.Class("response of a retried attempt (id != sequence id)")
				}
				if got != want {
					t.Fatalf("%s", r.Fail(c, "response of transaction %d (id %s, sequence %s) was processed with a policy version that %s the retry remedy, but the version current at its request %s it (a reload in between: %v)",
						e.Txn, tid, seq, map[bool]string{true: "enables", false: "does not enable"}[got], map[bool]string{true: "enabled", false: "did not enable"}[pinned[e.Txn]], reloadBetween[e.Txn]))
				}
			}
		}
		if nontrivial {
			r.NonTrivial(ev.JSON(c), func() any { return c })
		}
	})
}
