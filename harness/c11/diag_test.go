package c11

// Unit TestDiagnosisWorkerVersions: the third look-up of a transaction's policy version. In policy mode a finished
// transaction is handed to the diagnosis worker (runner.DiagnosisWorker), which resolves the policies of the
// transaction again - later, on its own goroutine, possibly with a backlog of other transactions in front of it -
// and runs the diagnosis plugins with them. The other units re-state that look-up; here the real worker runs:
// generated histories of requests, responses and reloads go through runner.DispatchOnRequest / DispatchOnResponse
// with the real accessor, plugins and HAR exporter; the worker is started at a generated point of the history (up
// to then finished transactions queue up). Every version declares the HAR diagnosis for its own subset of three
// endpoints, with or without obfuscation, so the record exported for a transaction - whether there is one, and
// whether it is obfuscated - tells which version the worker used. Oracle: that version is the one that was
// current at the transaction's request.

import (
	"fmt"
	"strings"
	"sync"
	"testing"
	"time"

	"lunar/engine/config"
	lunarMessages "lunar/engine/messages"
	"lunar/engine/runner"
	"lunar/engine/services"
	sharedConfig "lunar/shared-model/config"
	contextmanager "lunar/toolkit-core/context-manager"

	"pgregory.net/rapid"

	"verif/harness/internal/ev"
)

type recWriter struct {
	mu   sync.Mutex
	recs []string
}

func (w *recWriter) Write(b []byte) (int, error) {
	w.mu.Lock()
	w.recs = append(w.recs, string(b))
	w.mu.Unlock()
	return len(b), nil
}
func (w *recWriter) Close() error { return nil }
func (w *recWriter) take() []string {
	w.mu.Lock()
	defer w.mu.Unlock()
	out := w.recs
	w.recs = nil
	return out
}
func (w *recWriter) count() int {
	w.mu.Lock()
	defer w.mu.Unlock()
	return len(w.recs)
}

type diagVersion struct {
	Endpoints []int `json:"har_on_endpoints"` // indices of the endpoints that declare the HAR diagnosis
	Obfuscate bool  `json:"obfuscate"`
}

type diagEvent struct {
	K   string       `json:"k"` // req | resp | reload | start (the worker starts to run)
	Txn int          `json:"txn,omitempty"`
	EP  int          `json:"endpoint,omitempty"` // req: which endpoint the transaction calls
	V   *diagVersion `json:"version,omitempty"`  // reload: the new version
}

type diagCase struct {
	Initial diagVersion `json:"initial_version"`
	Events  []diagEvent `json:"events"`
}

var diagEndpoints = []string{"svc.test/user/{id}/messages", "svc.test/orders/{id}", "svc.test/ping/{id}"}

func (v diagVersion) has(ep int) bool {
	for _, e := range v.Endpoints {
		if e == ep {
			return true
		}
	}
	return false
}

func (v diagVersion) build() (*config.PoliciesData, error) {
	eps := []sharedConfig.EndpointConfig{}
	for _, e := range v.Endpoints {
		eps = append(eps, sharedConfig.EndpointConfig{Method: "GET", URL: diagEndpoints[e], Diagnosis: []sharedConfig.Diagnosis{{
			Name: "har", Enabled: true, Export: "file",
			Config: sharedConfig.DiagnosisConfig{HARExporter: &sharedConfig.HARExporterConfig{TransactionMaxSize: 10000, Obfuscate: sharedConfig.Obfuscate{Enabled: v.Obfuscate}}},
		}}})
	}
	tree, err := config.BuildEndpointPolicyTree(eps)
	if err != nil {
		return nil, err
	}
	// Config.Endpoints stays empty: nothing to register with the proxy
	return &config.PoliciesData{Config: sharedConfig.PoliciesConfig{}, EndpointPolicyTree: *tree}, nil
}

func genDiagVersion() *rapid.Generator[diagVersion] {
	return rapid.Custom(func(t *rapid.T) diagVersion {
		return diagVersion{Endpoints: rapid.SliceOfNDistinct(rapid.IntRange(0, 2), 0, 3, rapid.ID[int]).Draw(t, "endpoints"), Obfuscate: rapid.Bool().Draw(t, "obfuscate")}
	})
}

var (
	diagOnce     sync.Once
	diagServices *services.PoliciesServices
	diagWriter   = &recWriter{}
	diagErr      error
	diagSeq      int
)

func TestDiagnosisWorkerVersions(t *testing.T) {
	r := ev.New(t, "C11")
	diagOnce.Do(func() {
		contextmanager.Get().SetRealClock()
		diagServices, diagErr = services.Initialize(diagWriter, 15*time.Second, sharedConfig.Exporters{})
	})
	if diagErr != nil {
		fmt.Println("VERIF-INFRA: cannot initialise the policy services:", diagErr)
		t.Fatalf("%v", diagErr)
	}
	rapid.Check(t, func(t *rapid.T) {
		c := diagCase{Initial: genDiagVersion().Draw(t, "initial")}
		n := rapid.IntRange(3, 14).Draw(t, "n")
		startAt := rapid.IntRange(0, n).Draw(t, "worker-starts-at")
		txns, open := 0, []int{}
		for i := 0; i < n; i++ {
			if i == startAt {
				c.Events = append(c.Events, diagEvent{K: "start"})
			}
			switch k := rapid.IntRange(0, 9).Draw(t, "ev"); {
			case k < 4 || txns == 0:
				c.Events = append(c.Events, diagEvent{K: "req", Txn: txns, EP: rapid.IntRange(0, 2).Draw(t, "ep")})
				open = append(open, txns)
				txns++
			case k < 7 && len(open) > 0:
				j := rapid.IntRange(0, len(open)-1).Draw(t, "which")
				c.Events = append(c.Events, diagEvent{K: "resp", Txn: open[j]})
				open = append(open[:j], open[j+1:]...)
			default:
				v := genDiagVersion().Draw(t, "version")
				c.Events = append(c.Events, diagEvent{K: "reload", V: &v})
			}
		}
		for _, o := range open {
			c.Events = append(c.Events, diagEvent{K: "resp", Txn: o})
		}
		if startAt >= n {
			c.Events = append(c.Events, diagEvent{K: "start"})
		}
		r.CaseN(int64(txns))
		diagSeq++
		fail := func(format string, a ...any) { t.Fatalf("%s", r.Fail(c, format, a...)) }

		pd, err := c.Initial.build()
		if err != nil {
			fmt.Println("VERIF-INFRA:", err)
			t.Fatalf("infrastructure")
		}
		accV := config.NewTxnPoliciesAccessor(pd)
		acc := &accV
		worker := runner.NewDiagnosisWorker()
		diagWriter.take()
		cur := c.Initial
		type txn struct {
			id, stamp, user string
			ep              int
			pinned          diagVersion
			reloadsAfter    int
			answered        bool
		}
		ts := map[int]*txn{}
		base := time.Date(2031, 5, 17, 10, 0, 0, 0, time.UTC).Add(time.Duration(diagSeq%3000) * time.Hour)
		url := func(x *txn) string { return strings.Replace(diagEndpoints[x.ep], "{id}", x.user, 1) }
		started, reloads, backlog := false, 0, 0
		for _, e := range c.Events {
			switch e.K {
			case "req":
				x := &txn{id: fmt.Sprintf("d%d-%d", diagSeq, e.Txn), ep: e.EP, pinned: cur, reloadsAfter: reloads, user: fmt.Sprintf("u%06d", 100000+e.Txn)}
				when := base.Add(time.Duration(e.Txn) * time.Second)
				x.stamp = when.Format("2006-01-02T15:04:05")
				ts[e.Txn] = x
				u := url(x)
				req := lunarMessages.OnRequest{ID: x.id, SequenceID: x.id, Method: "GET", Scheme: "https", URL: u, Path: u[strings.Index(u, "/"):],
					Headers: map[string]string{"host": "svc.test", "authorization": "secret-" + x.user}, Time: when}
				p := acc.GetTxnPoliciesData(config.TxnID(req.ID))
				if _, err := runner.DispatchOnRequest(req, &p.EndpointPolicyTree, &p.Config, diagServices, worker); err != nil {
					fail("DispatchOnRequest: %v", err)
				}
			case "resp":
				x := ts[e.Txn]
				x.answered = true
				resp := lunarMessages.OnResponse{ID: x.id, SequenceID: x.id, Method: "GET", URL: url(x), Status: 200,
					Headers: map[string]string{"content-type": "text/plain"}, Time: base.Add(time.Duration(e.Txn)*time.Second + time.Millisecond)}
				p := acc.GetTxnPoliciesData(config.TxnID(resp.ID))
				if _, err := runner.DispatchOnResponse(resp, &p.EndpointPolicyTree, &p.Config.Global, diagServices, worker); err != nil {
					fail("DispatchOnResponse: %v", err)
				}
				if !started {
					backlog++
				}
				if reloads > x.reloadsAfter {
					r.Class("response after a reload")
				}
			case "reload":
				npd, err := e.V.build()
				if err != nil {
					fmt.Println("VERIF-INFRA:", err)
					t.Fatalf("infrastructure")
				}
				if err := acc.UpdatePoliciesData(npd, false); err != nil {
					fail("UpdatePoliciesData: %v", err)
				}
				cur = *e.V
				reloads++
			case "start":
				// let the hand-over goroutines of the finished transactions put them into the worker's channel
				time.Sleep(2 * time.Millisecond)
				worker.Run(acc, &diagServices.Diagnosis, &diagServices.Exporters)
				started = true
			}
		}
		want := 0
		for _, x := range ts {
			if x.answered && x.pinned.has(x.ep) {
				want++
			}
		}
		// wait for the exports: until the expected number is there and nothing more comes, at most 20 s (reached only when a record is missing)
		deadline := time.Now().Add(20 * time.Second)
		for time.Now().Before(deadline) {
			if diagWriter.count() >= want {
				time.Sleep(15 * time.Millisecond)
				break
			}
			time.Sleep(time.Millisecond)
		}
		worker.Stop()
		recs := diagWriter.take()
		if backlog >= 2 && reloads > 0 {
			r.Class("the worker started with a backlog of >=2 transactions and the history has a reload")
			r.NonTrivial(ev.JSON(c), func() any { return c })
		}
		for i, x := range ts {
			if !x.answered {
				continue
			}
			var mine []string
			for _, rec := range recs {
				if strings.Contains(rec, x.stamp) {
					mine = append(mine, rec)
				}
			}
			exp := x.pinned.has(x.ep)
			switch {
			case exp && len(mine) == 0:
				fail("transaction %d (%s, version at its request: %+v) has no exported record although that version declares the diagnosis for its endpoint (%d records exported, %d expected)", i, url(x), x.pinned, len(recs), want)
			case !exp && len(mine) > 0:
				fail("transaction %d (%s) was diagnosed although the version current at its request (%+v) declares no diagnosis for its endpoint: %.300s", i, url(x), x.pinned, mine[0])
			case len(mine) > 1:
				fail("transaction %d has %d exported records", i, len(mine))
			case exp:
				clear := strings.Contains(mine[0], x.user) || strings.Contains(mine[0], "secret-"+x.user)
				if clear == x.pinned.Obfuscate {
					fail("transaction %d (%s) was diagnosed with obfuscation=%v, the version current at its request has obfuscation=%v: %.300s", i, url(x), !clear, x.pinned.Obfuscate, mine[0])
				}
			}
		}
	})
}
