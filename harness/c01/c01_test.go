// C01 — fixed-window quotas never admit more than their limit per window.
package c01

import (
	"fmt"
	"os"
	"strings"
	"sync"
	"testing"
	"time"

	"pgregory.net/rapid"

	"verif/harness/internal/engine"
	"verif/harness/internal/ev"
	"verif/harness/internal/loglevel"
	"verif/harness/internal/vclock"
)

// ---- generated configuration ------------------------------------------------

type node struct {
	ID      string `json:"id"`
	Parent  int    `json:"parent"` // index, -1 for the root
	Max     int64  `json:"max"`    // explicit maximum (0 when Pct is used)
	Pct     int64  `json:"pct,omitempty"`
	Every   int64  `json:"interval"`
	Unit    string `json:"unit"`
	GroupBy string `json:"group_by,omitempty"`
}

type config struct {
	Nodes []node `json:"nodes"`
}

// windowUnits: every interval_unit the quota files accept. The lengths are the gateway's own definitions of the
// units (quota.type.go ParseWindow: a day is 24 h, a month 30 days - the plain month unit, not the calendar-aligned
// monthly_renewal feature).
var windowUnits = []string{"second", "second", "second", "second", "minute", "minute", "hour", "day", "month"}

func unitDur(u string) time.Duration {
	switch u {
	case "minute":
		return time.Minute
	case "hour":
		return time.Hour
	case "day":
		return 24 * time.Hour
	case "month":
		return 30 * 24 * time.Hour
	}
	return time.Second
}

// effective parameters of node i (percentage children inherit the parent's strategy)
func (c config) eff(i int) (max int64, w time.Duration, group string) {
	n := c.Nodes[i]
	if n.Pct != 0 {
		pm, pw, pg := c.eff(n.Parent)
		return pm * n.Pct / 100, pw, pg
	}
	return n.Max, time.Duration(n.Every) * unitDur(n.Unit), n.GroupBy
}

func (c config) depth(i int) int {
	d := 1
	for c.Nodes[i].Parent >= 0 {
		i = c.Nodes[i].Parent
		d++
	}
	return d
}

func genConfig() *rapid.Generator[config] {
	return rapid.Custom(func(t *rapid.T) config {
		n := rapid.IntRange(1, 4).Draw(t, "nodes")
		c := config{}
		for i := 0; i < n; i++ {
			nd := node{ID: fmt.Sprintf("Q%d", i), Parent: -1}
			if i > 0 {
				nd.Parent = rapid.IntRange(0, i-1).Draw(t, "parent")
				if c.depth(nd.Parent) >= 3 {
					nd.Parent = c.Nodes[nd.Parent].Parent
				}
			}
			usePct := i > 0 && rapid.IntRange(0, 3).Draw(t, "usePct") == 0
			if usePct {
				nd.Pct = rapid.SampledFrom([]int64{100, 50, 34, 67, 20}).Draw(t, "pct")
			} else {
				nd.Max = rapid.Int64Range(1, 5).Draw(t, "max")
				nd.Every = rapid.Int64Range(1, 5).Draw(t, "interval")
				nd.Unit = rapid.SampledFrom(windowUnits).Draw(t, "unit")
				if rapid.IntRange(0, 2).Draw(t, "grouped") == 0 {
					nd.GroupBy = "x-g"
				}
			}
			c.Nodes = append(c.Nodes, nd)
		}
		return c
	})
}

func (c config) quotaYAML() string {
	var b strings.Builder
	b.WriteString("quotas:\n")
	strat := func(n node, indent string) {
		if n.Pct != 0 {
			fmt.Fprintf(&b, "%sstrategy:\n%s  allocation_percentage: %d\n", indent, indent, n.Pct)
			return
		}
		fmt.Fprintf(&b, "%sstrategy:\n%s  fixed_window:\n%s    max: %d\n%s    interval: %d\n%s    interval_unit: %s\n", indent, indent, indent, n.Max, indent, n.Every, indent, n.Unit)
		if n.GroupBy != "" {
			fmt.Fprintf(&b, "%s    group_by_header: %s\n", indent, n.GroupBy)
		}
	}
	r := c.Nodes[0]
	fmt.Fprintf(&b, "  - id: %s\n    filter:\n      url: \"h.com/*\"\n", r.ID)
	strat(r, "    ")
	if len(c.Nodes) > 1 {
		b.WriteString("internal_limits:\n")
		for _, n := range c.Nodes[1:] {
			fmt.Fprintf(&b, "  - id: %s\n    parent_id: %s\n", n.ID, c.Nodes[n.Parent].ID)
			strat(n, "    ")
		}
	}
	return b.String()
}

func flowYAML(i int, quotaID string) string {
	return fmt.Sprintf(`name: flow%d
filter:
  url: "h.com/l%d"
processors:
  Lim%d:
    processor: Limiter
    parameters:
      - key: quota_id
        value: %s
  Gen%d:
    processor: GenerateResponse
    parameters:
      - key: status
        value: 429
      - key: body
        value: Too Many Requests
      - key: Content-Type
        value: text/plain
flow:
  request:
    - from:
        stream:
          name: globalStream
          at: start
      to:
        processor:
          name: Lim%d
    - from:
        processor:
          name: Lim%d
          condition: above_limit
      to:
        processor:
          name: Gen%d
    - from:
        processor:
          name: Lim%d
          condition: below_limit
      to:
        stream:
          name: globalStream
          at: end
  response:
    - from:
        processor:
          name: Gen%d
      to:
        stream:
          name: globalStream
          at: end
    - from:
        stream:
          name: globalStream
          at: start
      to:
        stream:
          name: globalStream
          at: end
`, i, i, i, quotaID, i, i, i, i, i, i)
}

// ---- reference model ----------------------------------------------------------

type wstate struct {
	started bool
	start   time.Time
	count   int64
	// per window bookkeeping for the soundness bound
	admitted int64
}

type model struct {
	cfg     config
	floor   bool // window start stored with one-second resolution
	st      map[string]*wstate
	restart int
}

func newModel(c config, floor bool) *model {
	return &model{cfg: c, floor: floor, st: map[string]*wstate{}}
}

func (m *model) key(i int, group string) string {
	_, _, gh := m.cfg.eff(i)
	g := "default"
	if gh != "" && group != "" {
		g = group
	}
	return fmt.Sprintf("%d/%s", i, g)
}

func (m *model) stamp(now time.Time) time.Time {
	if m.floor {
		return time.Unix(now.Unix(), 0)
	}
	return now
}

// inc mirrors "a request is counted against a quota when that quota's own check
// passes; a child's increment propagates to the parent".
func (m *model) inc(i int, group string, now time.Time, passed map[int]bool) {
	max, w, _ := m.cfg.eff(i)
	k := m.key(i, group)
	s := m.st[k]
	if s == nil {
		s = &wstate{}
		m.st[k] = s
	}
	if !s.started {
		s.started, s.start = true, m.stamp(now)
	} else if now.Sub(s.start) >= w {
		s.start, s.count, s.admitted = m.stamp(now), 0, 0
		m.restart++
	}
	if s.count+1 > max {
		passed[i] = false
		return
	}
	s.count++
	passed[i] = true
	if p := m.cfg.Nodes[i].Parent; p >= 0 {
		m.inc(p, group, now, passed)
	}
}

// request returns the model verdict for a request against level i.
func (m *model) request(i int, group string, now time.Time) bool {
	passed := map[int]bool{}
	m.inc(i, group, now, passed)
	ok := true
	for j := i; j >= 0; j = m.cfg.Nodes[j].Parent {
		if !passed[j] {
			ok = false
			break
		}
	}
	return ok
}

// noteAdmitted records an observed admission against every quota on the chain
// and returns an error when a window's admissions exceed its maximum.
func (m *model) noteAdmitted(i int, group string) error {
	for j := i; j >= 0; j = m.cfg.Nodes[j].Parent {
		max, _, _ := m.cfg.eff(j)
		s := m.st[m.key(j, group)]
		if s == nil {
			continue
		}
		s.admitted++
		if s.admitted > max {
			return fmt.Errorf("quota %s group-key %s admitted %d > max %d in the window starting %s", m.cfg.Nodes[j].ID, m.key(j, group), s.admitted, max, s.start.UTC().Format(time.RFC3339Nano))
		}
	}
	return nil
}

// remaining capacity of the chain of level i for the burst bound
func (m *model) remaining(i int, group string, now time.Time) int64 {
	rem := int64(1 << 40)
	for j := i; j >= 0; j = m.cfg.Nodes[j].Parent {
		max, w, _ := m.cfg.eff(j)
		s := m.st[m.key(j, group)]
		r := max
		if s != nil && s.started && now.Sub(s.start) < w {
			r = max - s.admitted
		}
		if r < rem {
			rem = r
		}
	}
	return rem
}

// ---- history -------------------------------------------------------------------

// group header values: short ones, and two long ones (a bearer token, 180 characters) that differ in their last
// character only - header-defined groups are keyed by the whole value
var (
	longGroup   = strings.Repeat("eyJhbGciOiJIUzI1NiJ9.", 8) + "c2lnbmF0dXJl"
	groupValues = []string{"", "a", "b", longGroup + "1", "a", "b", longGroup + "2", "a_b"}
)

type step struct {
	Op    string        `json:"op"` // adv | edge (move to a window end of that quota +- D) | req | burst | metrics (the gateway's metrics collection reads the quota gauges)
	D     time.Duration `json:"d,omitempty"`
	Level int           `json:"level,omitempty"`
	Group string        `json:"group,omitempty"`
	N     int           `json:"n,omitempty"`
	// Reuse (req): > 0 = the transaction carries the id of the Reuse-th request before it (the interceptors re-send
	// x-lunar-req-id on a retry and the proxy takes the transaction id from it); it is a request like any other
	Reuse int `json:"reuses_id_of_request_before,omitempty"`
}

func genSteps(c config) *rapid.Generator[[]step] {
	return rapid.Custom(func(t *rapid.T) []step {
		n := rapid.IntRange(3, 40).Draw(t, "len")
		out := []step{}
		// one history in six with a grouped quota starts with two groups whose header values are related by the
		// separator of the quota's state keys ("a" and "a_b"; keys are <quota>_<group>_<suffix>): both are used,
		// a window later "a_b" is used up to its maximum while "a" stays idle, a group never seen before shows up,
		// and "a_b" asks again
		for lvl := range c.Nodes {
			if m, w, g := c.eff(lvl); g != "" && m >= 1 && m <= 6 && rapid.IntRange(0, 5).Draw(t, "related-groups") == 0 {
				rel := rapid.SampledFrom([][2]string{{"a", "a_b"}, {"a", "a_currentCount"}, {"a_b", "a_b_c"}, {"a", "a_"}}).Draw(t, "pair")
				out = append(out, step{Op: "req", Level: lvl, Group: rel[1]}, step{Op: "req", Level: lvl, Group: rel[0]},
					step{Op: "adv", D: w + rapid.SampledFrom([]time.Duration{0, time.Millisecond, time.Second}).Draw(t, "rel-d")})
				for i := int64(0); i < m; i++ {
					out = append(out, step{Op: "req", Level: lvl, Group: rel[1]})
				}
				out = append(out, step{Op: "req", Level: lvl, Group: "zz-new"}, step{Op: "req", Level: lvl, Group: rel[1]})
				break
			}
		}
		for k := 0; k < n; k++ {
			switch rapid.IntRange(0, 10).Draw(t, "op") {
			case 10:
				out = append(out, step{Op: "metrics"})
			case 0, 1, 2:
				lvl := rapid.IntRange(0, len(c.Nodes)-1).Draw(t, "wlevel")
				_, w, _ := c.eff(lvl)
				d := rapid.SampledFrom([]time.Duration{
					0, time.Second, w - time.Second, w, w + time.Second, 2 * w, w - time.Millisecond, w + time.Millisecond,
					500 * time.Millisecond, 999 * time.Millisecond, 1, 250 * time.Millisecond, 3 * time.Second,
				}).Draw(t, "d")
				if d < 0 {
					d = 0
				}
				out = append(out, step{Op: "adv", D: d})
			case 3, 4:
				out = append(out, step{Op: "edge", Level: rapid.IntRange(0, len(c.Nodes)-1).Draw(t, "elevel"),
					Group: rapid.SampledFrom(groupValues).Draw(t, "egroup"),
					D:     rapid.SampledFrom([]time.Duration{0, 0, -1, 1, -time.Millisecond, time.Millisecond}).Draw(t, "delta")})
			default:
				st := step{Op: "req", Level: rapid.IntRange(0, len(c.Nodes)-1).Draw(t, "level"),
					Group: rapid.SampledFrom(groupValues).Draw(t, "group")}
				if rapid.IntRange(0, 5).Draw(t, "reuse") == 0 {
					st.Reuse = rapid.IntRange(1, 4).Draw(t, "which")
				}
				out = append(out, st)
			}
		}
		if rapid.IntRange(0, 2).Draw(t, "burst") == 0 {
			out = append(out, step{Op: "burst", Level: rapid.IntRange(0, len(c.Nodes)-1).Draw(t, "blevel"),
				Group: rapid.SampledFrom(groupValues[:4]).Draw(t, "bgroup"), N: rapid.IntRange(2, 12).Draw(t, "n")})
		}
		return out
	})
}

type hist struct {
	Config  config `json:"config"`
	StartNs int64  `json:"start_ns_offset"`
	Steps   []step `json:"steps"`
	// LogLevel: the gateway's log level (LOG_LEVEL), output discarded; "" / "off" = logging disabled
	LogLevel string `json:"log_level,omitempty"`
}

var scratch string

func TestMain(m *testing.M) {
	engine.Setup()
	base := os.Getenv("VERIF_SCRATCH")
	if base == "" {
		base = os.TempDir()
	}
	d, err := os.MkdirTemp(base, "c01-")
	if err != nil {
		fmt.Println("VERIF-INFRA: cannot create scratch dir:", err)
		os.Exit(2)
	}
	scratch = d
	code := m.Run()
	os.RemoveAll(d)
	os.Exit(code)
}

func txn(id string, level int, group string, now time.Time) engine.Txn {
	h := map[string]string{"host": "h.com"}
	if group != "" {
		h["x-g"] = group
	}
	return engine.Txn{ID: id, Method: "GET", URL: fmt.Sprintf("h.com/l%d", level), Path: fmt.Sprintf("/l%d", level), Headers: h, Time: now}
}

func runHistory(h hist) (nontrivial bool, classes []string, err error) {
	loglevel.With(h.LogLevel, func() { nontrivial, classes, err = runHistoryAtLevel(h) })
	return
}

func runHistoryAtLevel(h hist) (nontrivial bool, classes []string, err error) {
	clk := vclock.New(time.Unix(1_700_000_000, h.StartNs))
	engine.SetClock(clk)
	metrics := engine.NewMetrics()
	defer metrics.Close()
	dir, e := engine.NewDir(scratch)
	if e != nil {
		return false, nil, fmt.Errorf("VERIF-INFRA: %v", e)
	}
	defer dir.Remove()
	if e := dir.WriteQuota("q.yaml", h.Config.quotaYAML()); e != nil {
		return false, nil, fmt.Errorf("VERIF-INFRA: %v", e)
	}
	for i, n := range h.Config.Nodes {
		if e := dir.WriteFlow(fmt.Sprintf("f%d.yaml", i), flowYAML(i, n.ID)); e != nil {
			return false, nil, fmt.Errorf("VERIF-INFRA: %v", e)
		}
	}
	s, e := dir.Load()
	if e != nil {
		return false, nil, fmt.Errorf("VERIF-INFRA: generated configuration was rejected: %v\n%s", e, h.Config.quotaYAML())
	}
	models := []*model{newModel(h.Config, true), newModel(h.Config, false)}
	alive := []bool{true, true}
	why := []string{"", ""}
	refusals, boundary := 0, 0
	id := 0
	issued := []string{}
	for si, st := range h.Steps {
		switch st.Op {
		case "metrics":
			if e := metrics.Read(); e != nil {
				return false, nil, fmt.Errorf("VERIF-INFRA: metrics collection failed: %v", e)
			}
		case "adv":
			clk.Advance(st.D)
		case "edge":
			// move to the end of the current window of (level, group) according to the first live reference, +- D
			for mi, m := range models {
				if !alive[mi] {
					continue
				}
				if ws := m.st[m.key(st.Level, st.Group)]; ws != nil && ws.started {
					_, w, _ := h.Config.eff(st.Level)
					if target := ws.start.Add(w + st.D); target.After(clk.Now()) {
						clk.Set(target)
					}
				}
				break
			}
		case "req":
			id++
			now := clk.Now()
			txid := fmt.Sprintf("r%d", id)
			if st.Reuse > 0 && len(issued) >= st.Reuse {
				txid = issued[len(issued)-st.Reuse]
			}
			issued = append(issued, txid)
			res := engine.RunRequest(s, txn(txid, st.Level, st.Group, now))
			if res.Err != nil {
				return false, nil, fmt.Errorf("step %d: ExecuteFlow error: %v", si, res.Err)
			}
			admitted := !res.Refused()
			if !admitted {
				refusals++
			}
			for mi, m := range models {
				if !alive[mi] {
					continue
				}
				// boundary-instant class: arrival exactly at a window end of some quota on the chain
				for j := st.Level; j >= 0; j = h.Config.Nodes[j].Parent {
					_, w, _ := h.Config.eff(j)
					if ws := m.st[m.key(j, st.Group)]; ws != nil && ws.started && now.Sub(ws.start) == w && mi == 0 {
						boundary++
					}
				}
				want := m.request(st.Level, st.Group, now)
				if want != admitted {
					alive[mi] = false
					why[mi] = fmt.Sprintf("step %d (%+v at +%v): gateway admitted=%v, reference(floor=%v) says %v", si, st, now.Sub(time.Unix(1_700_000_000, 0)), admitted, m.floor, want)
					continue
				}
				if admitted {
					if e := m.noteAdmitted(st.Level, st.Group); e != nil {
						return false, nil, fmt.Errorf("step %d: %v", si, e)
					}
				}
			}
			if !alive[0] && !alive[1] {
				return false, nil, fmt.Errorf("sequential verdicts match neither reference model: %s | %s", why[0], why[1])
			}
		case "burst":
			now := clk.Now()
			// capacity according to every reference still alive (take the larger: tolerant)
			capacity := int64(-1)
			for mi, m := range models {
				if alive[mi] {
					if r := m.remaining(st.Level, st.Group, now); r > capacity {
						capacity = r
					}
				}
			}
			var wg sync.WaitGroup
			var mu sync.Mutex
			adm := int64(0)
			var firstErr error
			start := make(chan struct{})
			for k := 0; k < st.N; k++ {
				id++
				tx := txn(fmt.Sprintf("r%d", id), st.Level, st.Group, now)
				wg.Add(1)
				go func() {
					defer wg.Done()
					<-start
					res := engine.RunRequest(s, tx)
					mu.Lock()
					if res.Err != nil && firstErr == nil {
						firstErr = res.Err
					}
					if res.Err == nil && !res.Refused() {
						adm++
					}
					mu.Unlock()
				}()
			}
			close(start)
			wg.Wait()
			if firstErr != nil {
				return false, nil, fmt.Errorf("burst: ExecuteFlow error: %v", firstErr)
			}
			if adm > capacity {
				return false, nil, fmt.Errorf("burst of %d at level %d admitted %d > remaining capacity %d", st.N, st.Level, adm, capacity)
			}
			if int64(st.N) > capacity {
				nontrivial = true
				classes = append(classes, "burst>capacity")
			}
			if adm < capacity && int64(st.N) >= capacity {
				classes = append(classes, "burst-underfill")
			}
		}
	}
	restarts := models[0].restart
	if !alive[0] {
		restarts = models[1].restart
	}
	if refusals > 0 && restarts > 0 {
		nontrivial = true
	}
	if refusals > 0 {
		classes = append(classes, "has-refusal")
	}
	if restarts > 0 {
		classes = append(classes, "has-restart")
	}
	if boundary > 0 {
		classes = append(classes, "boundary-instant-arrival")
	}
	if alive[0] && !alive[1] {
		classes = append(classes, "only-floor-model-fits")
	}
	if !alive[0] && alive[1] {
		classes = append(classes, "only-exact-model-fits")
	}
	return nontrivial, classes, nil
}

func TestFixedWindowHistories(t *testing.T) {
	r := ev.New(t, "C01")
	rapid.Check(t, func(t *rapid.T) {
		cfg := genConfig().Draw(t, "config")
		h := hist{Config: cfg,
			StartNs: rapid.SampledFrom([]int64{0, 0, 1, 400_000_000, 900_000_000, 999_999_999}).Draw(t, "startns"),
			Steps:   genSteps(cfg).Draw(t, "steps")}
		h.LogLevel = loglevel.Gen().Draw(t, "log level")
		r.Class("log level " + h.LogLevel)
		r.Case()
		maxDepth, grouped := 0, false
		for i := range cfg.Nodes {
			if d := cfg.depth(i); d > maxDepth {
				maxDepth = d
			}
			if _, _, g := cfg.eff(i); g != "" {
				grouped = true
			}
		}
		r.Class(fmt.Sprintf("depth=%d", maxDepth))
		if grouped {
			r.Class("grouped")
		}
		nt, classes, err := runHistory(h)
		for _, c := range classes {
			r.Class(c)
		}
		if err != nil {
			if strings.HasPrefix(err.Error(), "VERIF-INFRA:") {
				fmt.Println(err.Error())
				t.Fatalf("%v", err)
			}
			t.Fatalf("%s", r.Fail(h, "%v", err))
		}
		if nt {
			r.NonTrivial(ev.JSON(h), func() any { return h })
		}
	})
}
