// C01, second unit: one request that touches several independent quotas. Two fixed-window quotas A and B
// (own files, both filtering h.com/*) are referenced by flows with one Limiter (h.com/a, h.com/b) and by flows
// with two chained Limiters (h.com/ab: A then B, h.com/ba: B then A); an optional third quota U is referenced
// by no flow at all and only counts through its system flow. Every quota keeps its own bound, and handled one
// at a time a request is refused only if A or B (whichever it consults, in order) is full.
package c01

import (
	"fmt"
	"strings"
	"testing"
	"time"

	"pgregory.net/rapid"

	"verif/harness/internal/engine"
	"verif/harness/internal/ev"
	"verif/harness/internal/vclock"
)

type multiCfg struct {
	A, B node
	U    *node `json:"unreferenced,omitempty"`
}

func single(n node) config { n.Parent = -1; return config{Nodes: []node{n}} }

func genRootNode(id string) *rapid.Generator[node] {
	return rapid.Custom(func(t *rapid.T) node {
		n := node{ID: id, Parent: -1,
			Max:   rapid.Int64Range(1, 4).Draw(t, "max"),
			Every: rapid.Int64Range(1, 5).Draw(t, "interval"),
			Unit:  rapid.SampledFrom(windowUnits).Draw(t, "unit")}
		if rapid.IntRange(0, 3).Draw(t, "grouped") == 0 {
			n.GroupBy = "x-g"
		}
		return n
	})
}

type mstep struct {
	Op    string        `json:"op"` // adv | edge | req
	D     time.Duration `json:"d,omitempty"`
	Which string        `json:"which,omitempty"` // edge: A | B ; req: a | b | ab | ba
	Group string        `json:"group,omitempty"`
}

type mhist struct {
	Config  multiCfg `json:"config"`
	StartNs int64    `json:"start_ns_offset"`
	Steps   []mstep  `json:"steps"`
}

func genMulti() *rapid.Generator[mhist] {
	return rapid.Custom(func(t *rapid.T) mhist {
		h := mhist{Config: multiCfg{A: genRootNode("QA").Draw(t, "A"), B: genRootNode("QB").Draw(t, "B")},
			StartNs: rapid.SampledFrom([]int64{0, 1, 400_000_000, 999_999_999}).Draw(t, "startns")}
		if rapid.Bool().Draw(t, "unreferenced") {
			u := genRootNode("QU").Draw(t, "U")
			h.Config.U = &u
		}
		n := rapid.IntRange(4, 40).Draw(t, "len")
		for k := 0; k < n; k++ {
			switch rapid.IntRange(0, 9).Draw(t, "op") {
			case 0, 1:
				h.Steps = append(h.Steps, mstep{Op: "adv", D: rapid.SampledFrom([]time.Duration{0, 1, 250 * time.Millisecond, 999 * time.Millisecond, time.Second, 3 * time.Second, time.Minute}).Draw(t, "d")})
			case 2:
				h.Steps = append(h.Steps, mstep{Op: "edge", Which: rapid.SampledFrom([]string{"A", "B"}).Draw(t, "which"),
					Group: rapid.SampledFrom([]string{"", "a"}).Draw(t, "egroup"),
					D:     rapid.SampledFrom([]time.Duration{0, -1, 1, time.Millisecond}).Draw(t, "delta")})
			default:
				h.Steps = append(h.Steps, mstep{Op: "req", Which: rapid.SampledFrom([]string{"a", "b", "ab", "ab", "ba", "ba"}).Draw(t, "url"),
					Group: rapid.SampledFrom(groupValues).Draw(t, "group")})
			}
		}
		return h
	})
}

func limiterProc(key, quota string) string {
	return fmt.Sprintf("  %s:\n    processor: Limiter\n    parameters:\n      - key: quota_id\n        value: %s\n", key, quota)
}

func multiFlowYAML(name string, quotas []string) string {
	var b strings.Builder
	fmt.Fprintf(&b, "name: flow_%s\nfilter:\n  url: \"h.com/%s\"\nprocessors:\n", name, name)
	for i, q := range quotas {
		b.WriteString(limiterProc(fmt.Sprintf("Lim%d", i), q))
	}
	b.WriteString("  Gen:\n    processor: GenerateResponse\n    parameters:\n      - key: status\n        value: 429\n      - key: body\n        value: Too Many Requests\n")
	proc := func(n, cond string) string {
		s := "        processor:\n          name: " + n + "\n"
		if cond != "" {
			s += "          condition: " + cond + "\n"
		}
		return s
	}
	const start = "        stream:\n          name: globalStream\n          at: start\n"
	const end = "        stream:\n          name: globalStream\n          at: end\n"
	b.WriteString("flow:\n  request:\n    - from:\n" + start + "      to:\n" + proc("Lim0", ""))
	for i := range quotas {
		k := fmt.Sprintf("Lim%d", i)
		b.WriteString("    - from:\n" + proc(k, "above_limit") + "      to:\n" + proc("Gen", ""))
		to := end
		if i+1 < len(quotas) {
			to = proc(fmt.Sprintf("Lim%d", i+1), "")
		}
		b.WriteString("    - from:\n" + proc(k, "below_limit") + "      to:\n" + to)
	}
	b.WriteString("  response:\n    - from:\n" + proc("Gen", "") + "      to:\n" + end + "    - from:\n" + start + "      to:\n" + end)
	return b.String()
}

func runMulti(h mhist) (nontrivial bool, classes []string, err error) {
	base := time.Unix(1_700_000_000, 0)
	clk := vclock.New(time.Unix(1_700_000_000, h.StartNs))
	engine.SetClock(clk)
	dir, e := engine.NewDir(scratch)
	if e != nil {
		return false, nil, fmt.Errorf("VERIF-INFRA: %v", e)
	}
	defer dir.Remove()
	cfgs := map[string]config{"A": single(h.Config.A), "B": single(h.Config.B)}
	// all quotas of one host must sit in one file
	var qy strings.Builder
	qy.WriteString("quotas:\n")
	roots := []node{h.Config.A, h.Config.B}
	if h.Config.U != nil {
		roots = append(roots, *h.Config.U)
	}
	for _, n := range roots {
		fmt.Fprintf(&qy, "  - id: %s\n    filter:\n      url: \"h.com/*\"\n    strategy:\n      fixed_window:\n        max: %d\n        interval: %d\n        interval_unit: %s\n", n.ID, n.Max, n.Every, n.Unit)
		if n.GroupBy != "" {
			fmt.Fprintf(&qy, "        group_by_header: %s\n", n.GroupBy)
		}
	}
	if e := dir.WriteQuota("q.yaml", qy.String()); e != nil {
		return false, nil, fmt.Errorf("VERIF-INFRA: %v", e)
	}
	order := map[string][]string{"a": {"A"}, "b": {"B"}, "ab": {"A", "B"}, "ba": {"B", "A"}}
	for name, qs := range order {
		ids := []string{}
		for _, q := range qs {
			ids = append(ids, "Q"+q)
		}
		if e := dir.WriteFlow("f_"+name+".yaml", multiFlowYAML(name, ids)); e != nil {
			return false, nil, fmt.Errorf("VERIF-INFRA: %v", e)
		}
	}
	s, e := dir.Load()
	if e != nil {
		return false, nil, fmt.Errorf("VERIF-INFRA: generated configuration was rejected: %v", e)
	}
	// two reference variants (window start kept with one-second resolution / exactly), each a pair of counters
	type pair map[string]*model
	variants := []pair{{"A": newModel(cfgs["A"], true), "B": newModel(cfgs["B"], true)}, {"A": newModel(cfgs["A"], false), "B": newModel(cfgs["B"], false)}}
	alive := []bool{true, true}
	why := []string{"", ""}
	refusals, both, secondRefused := 0, 0, 0
	for si, st := range h.Steps {
		switch st.Op {
		case "adv":
			clk.Advance(st.D)
		case "edge":
			for vi, v := range variants {
				if !alive[vi] {
					continue
				}
				m := v[st.Which]
				if ws := m.st[m.key(0, st.Group)]; ws != nil && ws.started {
					_, w, _ := m.cfg.eff(0)
					if target := ws.start.Add(w + st.D); target.After(clk.Now()) {
						clk.Set(target)
					}
				}
				break
			}
		case "req":
			now := clk.Now()
			hd := map[string]string{"host": "h.com"}
			if st.Group != "" {
				hd["x-g"] = st.Group
			}
			res := engine.RunRequest(s, engine.Txn{ID: fmt.Sprintf("m%d", si), Method: "GET", URL: "h.com/" + st.Which, Path: "/" + st.Which, Headers: hd, Time: now})
			if res.Err != nil {
				return false, nil, fmt.Errorf("step %d: ExecuteFlow error: %v", si, res.Err)
			}
			admitted := !res.Refused()
			if !admitted {
				refusals++
			}
			if len(order[st.Which]) == 2 {
				both++
			}
			for vi, v := range variants {
				if !alive[vi] {
					continue
				}
				want := true
				for k, q := range order[st.Which] {
					if !v[q].request(0, st.Group, now) {
						want = false
						if k == 1 && vi == 0 {
							secondRefused++
						}
						break
					}
				}
				if want != admitted {
					alive[vi] = false
					why[vi] = fmt.Sprintf("step %d (%+v at +%v): gateway admitted=%v, reference(floor=%v) says %v", si, st, now.Sub(base), admitted, vi == 0, want)
					continue
				}
				if admitted {
					for _, q := range order[st.Which] {
						if e := v[q].noteAdmitted(0, st.Group); e != nil {
							return false, nil, fmt.Errorf("step %d: %v", si, e)
						}
					}
				}
			}
			if !alive[0] && !alive[1] {
				return false, nil, fmt.Errorf("sequential verdicts match neither reference model: %s | %s", why[0], why[1])
			}
		}
	}
	if both > 0 {
		classes = append(classes, "request through two limiters")
	}
	if secondRefused > 0 {
		classes = append(classes, "refused by the second limiter")
	}
	if h.Config.U != nil {
		classes = append(classes, "with an unreferenced quota")
	}
	if refusals > 0 {
		classes = append(classes, "has-refusal")
	}
	return refusals > 0 && both > 0, classes, nil
}

func TestSeveralQuotasPerRequest(t *testing.T) {
	r := ev.New(t, "C01")
	rapid.Check(t, func(t *rapid.T) {
		h := genMulti().Draw(t, "history")
		r.Case()
		nt, classes, err := runMulti(h)
		for _, c := range classes {
			r.Class(c)
		}
		if err != nil {
			if strings.HasPrefix(err.Error(), "VERIF-INFRA:") {
				fmt.Println(err.Error())
				t.Fatalf("%v", err)
			}
			t.Fatalf("%s", r.Fail(h, "%v", err))
		}
		if nt {
			r.NonTrivial(ev.JSON(h), func() any { return h })
		}
	})
}
