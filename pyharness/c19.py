#!/usr/bin/env python3-vt
"""C19 - Python interceptor fail-safe and traffic filter (Hypothesis harness).

Run by /verif/check (unit kind "py"):

    python3-vt c19.py --test <TestName> --checks N --seed S [--replay FILE]

Tests
  TestBreakerMachine        RuleBasedStateMachine over the real FailSafe, used the way the hooks use it
  TestRequestsHook          RuleBasedStateMachine over the real RequestsHook closure (stub requests/yarl)
  TestTrafficFilter         generated allow/block lists x destinations x generated resolver
  TestWitnessIPv6Destination / TestWitnessIllFormedName   minimal witnesses of findings C19-F1 / C19-F2

The real modules are loaded from $VERIF_REPO (default /repo); nothing is written there.
Exit 0 property held, 1 a case failed (stats file carries the shrunk case), 2 infrastructure.
"""
import sys

sys.dont_write_bytecode = True  # never create __pycache__ inside the repository

import argparse
import ast
import hashlib
import importlib
import ipaddress
import json
import logging
import os
import re
import socket
import time as _real_time
import traceback
import types
from urllib.parse import urlsplit, urlunsplit

PROPERTY = "C19"
MAX_SAMPLES = 6
MAX_FINGERPRINTS = 400000
REPO = os.path.abspath(os.environ.get("VERIF_REPO") or "/repo")
PKG_ROOT = os.path.join(REPO, "interceptors", "lunar-py-interceptor", "lunar_interceptor", "src", "lunar_interceptor")
STRICT_EDGE = os.environ.get("VERIF_C19_STRICT_EDGE") == "1"  # development aid, see reference breaker
F1 = "C19-F1"  # IPv6 literal destination: is_allowed raises AddressValueError
F2 = "C19-F2"  # ill-formed host name: resolver's UnicodeError escapes is_allowed


class Infra(Exception):
    """A problem of the harness or its environment - never a verdict about the property."""


class NetworkAccess(BaseException):
    """Raised by the guards when code under test tries a real name lookup."""


class PropertyViolation(AssertionError):
    pass


def infra_exit(msg):
    print("VERIF-INFRA: " + " ".join(str(msg).split())[:900], flush=True)
    sys.exit(2)


# --------------------------------------------------------------------------------------
# statistics recorder (same JSON shape as harness/internal/ev/ev.go)
# --------------------------------------------------------------------------------------
def canon(v):
    return json.dumps(v, sort_keys=True, separators=(",", ":"), ensure_ascii=True, default=str)


class Recorder:
    def __init__(self, prop, test):
        self.property, self.test = prop, test
        self.cases = 0
        self.classes = {}
        self.nontrivial = 0
        self.fp = set()
        self.samples = []
        self.known = {}
        self.failure = None
        self.failed = False
        self.exhaustive = False
        self.notes = []
        self.inconclusive = 0
        self.open = set()
        path = os.environ.get("VERIF_KNOWN") or "/verif/known_findings.json"
        try:
            with open(path) as f:
                kf = json.load(f)
        except FileNotFoundError:
            kf = {}
        except ValueError as e:
            raise Infra("known findings file %s is not valid JSON: %s" % (path, e))
        for x in kf.get("findings") or []:
            if x.get("property") == prop and x.get("status") == "open":
                self.open.add(x.get("id"))

    def case(self):
        if not self.failed:
            self.cases += 1

    def cls(self, name, n=1):
        if not self.failed:
            self.classes[name] = self.classes.get(name, 0) + n

    def non_trivial(self, fingerprint, sample=None):
        if self.failed:
            return
        self.nontrivial += 1
        k = int.from_bytes(hashlib.blake2b(fingerprint.encode("utf-8", "surrogatepass"), digest_size=8).digest(), "big")
        if k in self.fp:
            return
        if len(self.fp) < MAX_FINGERPRINTS:
            self.fp.add(k)
        if len(self.samples) < MAX_SAMPLES and sample is not None:
            self.samples.append(sample())

    def is_open(self, fid):
        return fid in self.open

    def known_finding(self, fid, witness=None):
        if fid not in self.open:
            return False
        if self.failed:
            return True
        h = self.known.get(fid)
        if h is None:
            h = {"count": 0}
            if witness is not None:
                h["witness"] = witness()
            self.known[fid] = h
        h["count"] += 1
        return True

    def note(self, s):
        if len(self.notes) < 20:
            self.notes.append(s)

    def fail(self, case, msg):
        """Records the failing case; the last call wins (Hypothesis replays the shrunk case last)."""
        self.failed = True
        self.failure = {"msg": msg, "case": case}
        return msg

    def flush(self):
        st = {
            "property": self.property, "test": self.test, "cases": self.cases, "classes": self.classes,
            "nontrivial_evaluations": self.nontrivial, "fingerprints": sorted(self.fp), "samples": self.samples,
            "known": self.known,
        }
        if self.failure is not None:
            st["failure"] = self.failure
        if self.exhaustive:
            st["exhaustive"] = True
        if self.notes:
            st["notes"] = self.notes
        if self.inconclusive:
            st["inconclusive"] = self.inconclusive
        d = os.environ.get("VERIF_STATS")
        if not d:
            print("ev: %s cases=%d nontrivial=%d distinct=%d known=%s" % (
                self.test, self.cases, self.nontrivial, len(self.fp), {k: v["count"] for k, v in self.known.items()}))
            for k in sorted(self.classes):
                print("   %-44s %d" % (k, self.classes[k]))
            if self.failure:
                print("FAIL: %s\n  case: %s" % (self.failure["msg"], canon(self.failure["case"])))
            return
        os.makedirs(d, exist_ok=True)
        name = re.sub(r"[^A-Za-z0-9_-]", "_", self.test) + ".json"
        tmp = os.path.join(d, "." + name + ".tmp")
        with open(tmp, "w") as f:
            json.dump(st, f, default=str)
        os.replace(tmp, os.path.join(d, name))


REC = None  # set by main()


def violation(case, msg):
    raise PropertyViolation(REC.fail(case, msg))


# --------------------------------------------------------------------------------------
# loading the code under test
# --------------------------------------------------------------------------------------
class VClock:
    """Virtual clock. Installed as the module attribute `time` of fail_safe.py, which works for both
    `from time import time` (called) and `import time` (attribute access), and as time.time/monotonic
    while code under test runs."""
    BASE = 1_700_000_000.0

    def __init__(self):
        self.now = self.BASE

    def __call__(self):
        return self.now

    def time(self):
        return self.now

    def monotonic(self):
        return self.now

    def perf_counter(self):
        return self.now

    def sleep(self, d):
        self.now += max(0.0, float(d))

    def advance(self, d):
        self.now += d

    def reset(self):
        self.now = self.BASE


CLOCK = VClock()


class SutSection:
    """While code under test runs, the process-wide clock functions read the virtual clock as well
    (a refactor to another clock function must not turn into a real-time dependency)."""

    depth = 0
    saved = None

    def __enter__(self):
        if self.depth == 0:
            self.saved = (_real_time.time, _real_time.monotonic, _real_time.sleep)
            _real_time.time, _real_time.monotonic, _real_time.sleep = CLOCK.time, CLOCK.monotonic, CLOCK.sleep
        self.depth += 1
        return self

    def __exit__(self, *a):
        self.depth -= 1
        if self.depth == 0:
            _real_time.time, _real_time.monotonic, _real_time.sleep = self.saved
        return False


SUT = SutSection()


class Sut:
    pass


S = Sut()


def _silent_logger():
    lg = logging.getLogger("verif-c19-sut")
    lg.handlers[:] = [logging.NullHandler()]
    lg.propagate = False
    lg.setLevel(logging.CRITICAL + 10)
    return lg


def load_sut(with_hook=False):
    if not os.path.isfile(os.path.join(PKG_ROOT, "interceptor", "fail_safe.py")):
        raise Infra("interceptor sources not found under %s" % PKG_ROOT)
    # empty package shells: the real __init__ files import aiohttp/yarl/requests and install hooks
    for name, path in (("lunar_interceptor", PKG_ROOT),
                       ("lunar_interceptor.interceptor", os.path.join(PKG_ROOT, "interceptor")),
                       ("lunar_interceptor.interceptor.hooks", os.path.join(PKG_ROOT, "interceptor", "hooks"))):
        m = types.ModuleType(name)
        m.__path__ = [path]
        m.__package__ = name
        sys.modules[name] = m
    os.environ["LUNAR_PROXY_HOST"] = GATEWAY_HOSTPORT
    for k in ("LUNAR_ALLOW_LIST", "LUNAR_BLOCK_LIST", "LUNAR_ENTER_COOLDOWN_AFTER_ATTEMPTS",
              "LUNAR_EXIT_COOLDOWN_AFTER_SEC", "LUNAR_PROXY_SUPPORT_TLS", "LUNAR_TENANT_ID", "LUNAR_HANDSHAKE_PORT"):
        os.environ.pop(k, None)
    logging.getLogger().setLevel(logging.CRITICAL + 10)  # load_env_value logs through the root logger
    try:
        S.fs = importlib.import_module("lunar_interceptor.interceptor.fail_safe")
        S.tf = importlib.import_module("lunar_interceptor.interceptor.traffic_filter")
        S.cfg = importlib.import_module("lunar_interceptor.interceptor.configuration")
    except Exception as e:  # noqa: BLE001
        raise Infra("cannot import interceptor modules from %s: %r" % (PKG_ROOT, e))
    S.logger = _silent_logger()
    # clock
    if not hasattr(S.fs, "time"):
        raise Infra("fail_safe.py has no module attribute `time` to patch")
    S.fs.time = CLOCK
    # resolver
    if hasattr(S.tf, "gethostbyname"):
        S.tf.gethostbyname = fake_gethostbyname
    socket.gethostbyname = fake_gethostbyname

    def _guard(*a, **k):
        raise NetworkAccess("code under test attempted a real name lookup %r" % (a[:1],))
    socket.getaddrinfo = _guard
    socket.gethostbyname_ex = _guard
    socket.gethostbyaddr = _guard
    socket.create_connection = _guard
    # the two factory functions of the package __init__, extracted without running the module
    init_py = os.path.join(PKG_ROOT, "__init__.py")
    try:
        tree = ast.parse(open(init_py).read(), init_py)
    except Exception as e:  # noqa: BLE001
        raise Infra("cannot parse %s: %r" % (init_py, e))
    want = ("_load_fail_safe", "_build_traffic_filter_from_env_vars")
    fns = [n for n in tree.body if isinstance(n, ast.FunctionDef) and n.name in want]
    if sorted(f.name for f in fns) != sorted(want):
        raise Infra("package __init__ no longer defines %s" % (want,))
    ns = {}
    for mod in (S.fs, S.tf, S.cfg):
        ns.update({k: v for k, v in vars(mod).items() if not k.startswith("__")})
    ns["_LOGGER"] = S.logger
    ns["interceptor_config"] = None
    exec(compile(ast.Module(body=fns, type_ignores=[]), init_py, "exec"), ns)
    S.pkg_ns = ns
    S.cfg_cache = {}
    if with_hook:
        install_stub_libs()
        try:
            S.hook_mod = importlib.import_module("lunar_interceptor.interceptor.hooks.requests")
        except Exception as e:  # noqa: BLE001
            raise Infra("cannot import hooks/requests.py with stub requests/yarl: %r" % (e,))
        if hasattr(S.hook_mod, "sleep"):
            S.hook_mod.sleep = CLOCK.sleep
        if not S.hook_mod.RequestsHook.is_hook_supported():
            raise Infra("RequestsHook reports the stub requests module as unsupported")


def interceptor_config(threshold=None, cooldown=None, block=None, allow=None):
    """The interceptor configuration exactly as a process started with these environment variables
    gets it: configuration.py reads the variables while the module is imported (dataclass defaults)."""
    key = (threshold, cooldown, block, allow)
    got = S.cfg_cache.get(key)
    if got is not None:
        return got
    env = {"LUNAR_ENTER_COOLDOWN_AFTER_ATTEMPTS": threshold, "LUNAR_EXIT_COOLDOWN_AFTER_SEC": cooldown,
           "LUNAR_BLOCK_LIST": block, "LUNAR_ALLOW_LIST": allow}
    for k, v in env.items():
        if v is None:
            os.environ.pop(k, None)
        else:
            os.environ[k] = str(v)
    try:
        importlib.reload(S.cfg)
        conf = S.cfg.get_interceptor_config(S.logger)
    except Exception as e:  # noqa: BLE001
        raise Infra("configuration.py failed to load with %r: %r" % (env, e))
    if len(S.cfg_cache) < 4096:
        S.cfg_cache[key] = conf
    return conf


def build_fail_safe(threshold, cooldown):
    S.pkg_ns["interceptor_config"] = interceptor_config(threshold=threshold, cooldown=cooldown)
    try:
        return S.pkg_ns["_load_fail_safe"]()
    except Exception as e:  # noqa: BLE001
        raise Infra("_load_fail_safe() failed: %r" % (e,))


def build_traffic_filter(block, allow, case_for_failure=None):
    S.pkg_ns["interceptor_config"] = interceptor_config(block=block, allow=allow)
    with SUT:
        return S.pkg_ns["_build_traffic_filter_from_env_vars"]()


# --------------------------------------------------------------------------------------
# generated resolver
# --------------------------------------------------------------------------------------
class Resolver:
    """name -> [fail_until_step, failure kind, IPv4 address | None]; the answer depends on the index of
    the current query of the case (not on how often the code under test asks)."""

    def __init__(self):
        self.table = {}
        self.step = 0
        self.raised = None  # last non-OSError exception object raised by the resolver
        self.calls = 0


RES = Resolver()
_REAL_GETHOSTBYNAME = socket.gethostbyname
_FAILS = {
    "gaierror": lambda: socket.gaierror(-2, "Name or service not known"),
    "again": lambda: socket.gaierror(-3, "Temporary failure in name resolution"),
    "herror": lambda: socket.herror(1, "Unknown host"),
    "timeout": lambda: socket.timeout("timed out"),
}


def idna_fails(host):
    try:
        host.encode("idna")
        return False
    except UnicodeError:
        return True


def numeric_form(host):
    """Dotted/hex/octal forms the C resolver turns into an address without any lookup."""
    try:
        if host and host.isascii() and re.fullmatch(r"[0-9a-fA-FxX.]+", host):
            return socket.inet_ntoa(socket.inet_aton(host))
    except OSError:
        pass
    return None


def fake_gethostbyname(host):
    RES.calls += 1
    if not isinstance(host, str):
        raise TypeError("gethostbyname() argument 1 must be str")
    if "\x00" in host or idna_fails(host):
        # the real function fails while converting its argument (codec "idna"), before any lookup
        try:
            _REAL_GETHOSTBYNAME(host)
        except BaseException as e:  # noqa: BLE001
            RES.raised = e
            raise
        raise NetworkAccess("real resolver unexpectedly accepted %r" % (host,))
    num = numeric_form(host)
    if num is not None:
        return num
    ent = RES.table.get(host)
    if ent is None:
        raise _FAILS["gaierror"]()
    until, kind, addr = ent
    if RES.step < until or addr is None:
        raise _FAILS.get(kind, _FAILS["gaierror"])()
    return addr


def resolve_now(host, table, step):
    """Oracle-side view of the destination: ('ip', addr) | ('none',) | ('ill',)."""
    try:
        return ("ip", str(ipaddress.ip_address(host)))
    except ValueError:
        pass
    if "\x00" in host or idna_fails(host):
        return ("ill",)
    num = numeric_form(host)
    if num is not None:
        return ("ip", num)
    ent = table.get(host)
    if ent is None or ent[2] is None or step < ent[0]:
        return ("none",)
    return ("ip", ent[2])


def addr_class(addr):
    """'private' (loopback / RFC 1918, the ranges the statement names), 'global', or 'other'."""
    ip = ipaddress.ip_address(addr)
    if ip.version == 6:
        if ip.ipv4_mapped is not None:
            return "private" if addr_class(str(ip.ipv4_mapped)) == "private" else "other"
        if ip.is_loopback or (int(ip) >> 121) == (0xFC >> 1):  # ::1, fc00::/7
            return "private"
        return "other"
    a, b = (int(x) for x in addr.split(".")[:2])
    if a == 10 or a == 127 or (a == 172 and 16 <= b <= 31) or (a == 192 and b == 168):
        return "private"
    return "global" if ip.is_global else "other"


def is_ipv6_literal(host):
    try:
        return ipaddress.ip_address(host).version == 6
    except ValueError:
        return False


_SURE_HOST = re.compile(r"^(?:[a-z0-9](?:[a-z0-9-]{0,30}[a-z0-9])?\.)*[a-z0-9]{2,30}$")


def entry_surely_valid(e):
    try:
        ipaddress.ip_address(e)
        return True
    except ValueError:
        pass
    return bool(_SURE_HOST.match(e)) and any(c.isalpha() for c in e)


def split_list(raw):
    return raw.split(",") if raw else None


def filter_expect(block_raw, allow_raw, table, step, host, headers):
    """(must, reason): must is True / False / None (statement and documentation leave it open)."""
    if headers and any(k == "x-lunar-allow" for k in headers):
        return None, "per-request header override (outside the statement)"
    block, allow = split_list(block_raw), split_list(allow_raw)
    in_allow = allow is not None and host in allow
    in_block = block is not None and host in block
    dest = resolve_now(host, table, step)
    dclass = addr_class(dest[1]) if dest[0] == "ip" else None
    if allow is not None and not in_allow:
        return False, "an allow list is configured and does not contain the destination"
    if in_block and not in_allow:
        return False, "destination is on the block list"
    if dclass == "private" and not in_allow:
        return False, "destination %s is a loopback/private address" % (dest[1],)
    # completeness, as documented in the package README
    if dclass == "global" and ipaddress.ip_address(dest[1]).version == 4:
        if in_allow and entry_surely_valid(host):
            return True, "destination is on the allow list and public"
        if allow is None and not in_block and (block is None or all(entry_surely_valid(e) for e in block)):
            return True, "public destination, no allow list, not on the (valid) block list"
    return None, "left open"


def finding_for_raise(block_raw, allow_raw, host, headers, exc):
    """Classifier: which listed defect model explains this exception out of is_allowed, if any."""
    if headers and "x-lunar-allow" in headers:
        return None
    if split_list(allow_raw) is not None:
        return None  # with an allow list the defective code path is never reached
    block = split_list(block_raw)
    if block is not None and host in block:
        return None
    if is_ipv6_literal(host) and isinstance(exc, ipaddress.AddressValueError):
        return F1  # defect model: every IP literal is parsed as IPv4Address
    if (resolve_now(host, {}, 0) == ("ill",) and isinstance(exc, UnicodeError) and exc is RES.raised):
        return F2  # defect model: only socket.error of the resolver is caught
    return None


# --------------------------------------------------------------------------------------
# reference circuit breaker
# --------------------------------------------------------------------------------------
class RefBreaker:
    """Set of abstract states (open, trip instant, consecutive failures) the statement allows after
    the observed history. Where the statement is silent every reading is kept:
      * the failure count may survive the cool-down or start again from zero;
      * a call that does not go through the gateway (bypass, filtered destination) and an application
        exception may or may not interrupt a run of consecutive gateway failures;
      * at the instant now - trip == cool-down exactly, both answers are accepted
        (VERIF_C19_STRICT_EDGE=1 demands 'closed' - used to show that the generator reaches the edge).
    Mandatory: T consecutive gateway failures open it; it stays open while now - trip < C; it is
    closed at any check with now - trip > C; a success through the gateway clears the count."""

    def __init__(self, threshold, cooldown):
        self.T, self.C = threshold, cooldown
        self.states = {(False, 0.0, 0)}
        self.last_closed = True
        self.opened = 0
        self.reclosed = 0
        self.edge_checks = 0
        self.buckets = {}

    def _expire(self, now):
        out = set()
        for (op, trip, n) in self.states:
            if not op:
                out.add((op, trip, n))
                continue
            el = now - trip
            if el < self.C:
                out.add((op, trip, n))
            else:
                if el == self.C and not STRICT_EDGE:
                    out.add((op, trip, n))
                out.add((False, 0.0, n))
                out.add((False, 0.0, 0))
        return out

    def may_be(self, now):
        st = self._expire(now)
        return {not op for (op, _, _) in st}  # possible values of "closed"

    def observe_closed(self, now, closed):
        """Filters the states by the observed answer; returns False if no reading allows it."""
        if any(op and (now - trip) == self.C for (op, trip, _) in self.states):
            self.edge_checks += 1
        for el in sorted({now - trip for (op, trip, _) in self.states if op})[:1]:
            b = ("check of a tripped breaker at cool-down " +
                 ("-0.5s or earlier" if el < self.C - 0.25 else "-0.25s..-0.125s" if el < self.C else "exactly" if el == self.C
                  else "+0.125s..+0.25s" if el <= self.C + 0.25 else "+0.5s or later"))
            self.buckets[b] = self.buckets.get(b, 0) + 1
        st = {s for s in self._expire(now) if (not s[0]) == closed}
        if not st:
            return False
        if closed != self.last_closed:
            if closed:
                self.reclosed += 1
            else:
                self.opened += 1
            self.last_closed = closed
        self.states = st
        return True

    def describe(self, now):
        return sorted(("open" if op else "closed", (round(now - trip, 3) if op else None), n) for (op, trip, n) in self.states)

    def success(self):
        self.states = {(op, trip, 0) for (op, trip, _) in self.states}

    def gateway_failure(self, now):
        out = set()
        for (op, trip, n) in self.states:
            n += 1
            if n >= self.T:
                out.add((True, now, min(n, self.T)))
                if op:
                    # a failure reported while the breaker is open (a call that was already in flight when it
                    # tripped): the statement does not say whether the cool-down starts again
                    out.add((True, trip, min(n, self.T)))
            else:
                out.add((op, trip, n))
        self.states = out

    def neutral(self):
        self.states |= {(op, trip, 0) for (op, trip, _) in self.states}


# --------------------------------------------------------------------------------------
# (a) breaker harness: the FailSafe used the way hooks/requests.py uses it
# --------------------------------------------------------------------------------------
class StubGatewayConnectionError(IOError):
    """Stands for requests.ConnectionError / aiohttp client errors registered through handle_on()."""


class StubAioConnectionError(Exception):
    """Connection error type of a second client library whose hook shares the same FailSafe."""


class StubTornadoConnectionError(Exception):
    """... and of a third one."""


# Interceptor.set_hooks() builds one hook per installed client library around ONE FailSafe; each hook registers
# its library's connection errors through handle_on(). A failure of any registered type comes from the gateway.
HOOK_EXC = (StubAioConnectionError, StubGatewayConnectionError, StubTornadoConnectionError)


# What the libraries actually raise when the gateway is unreachable is often a more specific class than the one
# the hook registers (requests: ConnectTimeout, SSLError, ProxyError are ConnectionErrors; aiohttp:
# ClientConnectorError -> ClientConnectorCertificateError, ServerDisconnectedError, ...).
class StubGatewayConnectTimeout(StubGatewayConnectionError):
    pass


class StubGatewaySSLError(StubGatewayConnectionError):
    pass


class StubAioConnectorError(StubAioConnectionError):
    pass


class StubAioConnectorCertificateError(StubAioConnectorError):
    pass


class StubTornadoStreamClosedError(StubTornadoConnectionError):
    pass


RAISED_AS = {
    StubGatewayConnectionError: (StubGatewayConnectionError, StubGatewayConnectTimeout, StubGatewaySSLError),
    StubAioConnectionError: (StubAioConnectionError, StubAioConnectorError, StubAioConnectorCertificateError),
    StubTornadoConnectionError: (StubTornadoConnectionError, StubTornadoStreamClosedError),
}


class AppError(Exception):
    pass


class AppBaseError(BaseException):
    pass


# deliberately no timeout / OS-level connection types: whether those "come from the gateway" is debatable
APP_EXC = {"value": ValueError, "runtime": RuntimeError, "app": AppError, "key": KeyError, "base": AppBaseError}
OUTCOMES = ("ok", "hdr", "conn", "app")
ERR_CODES = ("1", "2", "3", "4", "5", "99", "")


class BreakerHarness:
    def __init__(self, threshold, cooldown, hooks=1):
        CLOCK.reset()
        self.case = {"T": threshold, "C": cooldown, "steps": []}
        if hooks != 1:
            self.case["hooks"] = hooks
        self.ref = RefBreaker(threshold, cooldown)
        self.fs = build_fail_safe(threshold, cooldown)
        # one registration per hook, in the order set_hooks() builds them
        self.hook_exc = HOOK_EXC[:hooks] if hooks > 1 else (StubGatewayConnectionError,)
        with SUT:
            for exc in self.hook_exc:
                self.fs.handle_on((exc,))
        self.n_calls = self.n_gateway = self.n_bypass = self.n_app = self.n_swallowed = 0

    def _state_ok(self, where):
        try:
            with SUT:
                v = self.fs.state_ok
        except Exception as e:  # noqa: BLE001
            violation(self.case, "%s: reading state_ok raised %r" % (where, e))
        if not isinstance(v, bool):
            violation(self.case, "%s: state_ok returned %r" % (where, v))
        return v

    def _check_closed(self, where, closed):
        now = CLOCK.now
        prev = self.ref.describe(now)
        if not self.ref.observe_closed(now, closed):
            violation(self.case, "%s: fail-safe says %s at t=+%.2fs but every reading of the statement requires %s "
                      "(threshold %d, cool-down %ds; reference states before this check [state, seconds since trip, failures]: %s)" % (
                          where, "closed (route through the gateway)" if closed else "open (bypass)",
                          now - CLOCK.BASE, "open" if closed else "closed", self.ref.T, self.ref.C, prev))

    def advance(self, delta):
        self.case["steps"].append(["adv", delta])
        CLOCK.advance(delta)

    def peek(self):
        self.case["steps"].append(["peek"])
        self._check_closed("peek #%d" % len(self.case["steps"]), self._state_ok("peek"))

    def call(self, outcome, allowed, dur, code, exc_kind):
        self.case["steps"].append(["call", outcome, bool(allowed), dur, code, exc_kind])
        where = "step #%d call(%s)" % (len(self.case["steps"]), outcome)
        fs = self.fs
        self.n_calls += 1
        entered = {"v": None}
        app_exc = APP_EXC[exc_kind]("application failure") if outcome == "app" else None
        escaped = None
        try:
            with SUT:
                # mirrors hooks/requests.py::_request
                with fs:
                    ok = fs.state_ok
                    entered["v"] = ok
                    if ok and allowed:
                        CLOCK.advance(dur)
                        if outcome == "ok":
                            fs.validate_headers({"content-type": "text/plain"})
                        elif outcome == "hdr":
                            fs.validate_headers({"content-type": "text/plain", "x-lunar-error": code})
                        elif outcome == "conn":
                            # the connection error of one of the client libraries whose hook registered it
                            k = len(self.case["steps"])
                            variants = RAISED_AS[self.hook_exc[k % len(self.hook_exc)]]
                            raise variants[(k // len(self.hook_exc)) % len(variants)]("connection to the gateway failed")
                        else:
                            raise app_exc
        except BaseException as e:  # noqa: BLE001
            if isinstance(e, (PropertyViolation, Infra, NetworkAccess)):
                raise
            escaped = e
        ok = entered["v"]
        if ok is None:
            violation(self.case, "%s: state_ok could not be read: %r" % (where, escaped))
        if not isinstance(ok, bool):
            violation(self.case, "%s: state_ok returned %r" % (where, ok))
        # the breaker's answer, judged at the instant it was read
        now_read = CLOCK.now - (dur if (ok and allowed) else 0)
        saved = CLOCK.now
        CLOCK.now = now_read
        try:
            self._check_closed(where, ok)
        finally:
            CLOCK.now = saved
        if ok and allowed:
            self.n_gateway += 1
            if outcome == "ok":
                if escaped is not None:
                    violation(self.case, "%s: successful gateway call raised %r into the application" % (where, escaped))
                self.ref.success()
            elif outcome in ("hdr", "conn"):
                if escaped is not None:
                    violation(self.case, "%s: gateway-side failure was raised into the application instead of falling back to a direct call: %r" % (where, escaped))
                self.n_swallowed += 1
                self.ref.gateway_failure(CLOCK.now)
            else:
                self.n_app += 1
                if escaped is None:
                    violation(self.case, "%s: application exception %s was swallowed by the fail-safe" % (where, type(app_exc).__name__))
                if escaped is not app_exc:
                    violation(self.case, "%s: application exception was replaced: raised %r, got %r" % (where, app_exc, escaped))
                self.ref.neutral()
        else:
            self.n_bypass += 1
            if escaped is not None:
                violation(self.case, "%s: a call that bypasses the gateway raised %r from the fail-safe" % (where, escaped))
            self.ref.neutral()

    # ---- calls that overlap in time: one fail-safe is shared by every hooked request of the process, and a
    # threaded application has several of them in flight. `with fs:` is __enter__ ... __exit__, so a call is split
    # into its two halves and other steps happen in between.
    def begin(self, allowed):
        self.case["steps"].append(["begin", bool(allowed)])
        where = "step #%d begin" % len(self.case["steps"])
        try:
            with SUT:
                self.fs.__enter__()
                ok = self.fs.state_ok
        except Exception as e:  # noqa: BLE001
            violation(self.case, "%s: entering the fail-safe raised %r" % (where, e))
        if not isinstance(ok, bool):
            violation(self.case, "%s: state_ok returned %r" % (where, ok))
        self._check_closed(where, ok)
        if not hasattr(self, "pending"):
            self.pending = []
        self.pending.append({"via": bool(ok and allowed), "at": len(self.case["steps"])})
        self.n_calls += 1

    def end(self, which, outcome, code, exc_kind):
        if not getattr(self, "pending", None):
            return
        p = self.pending.pop(which % len(self.pending))
        self.case["steps"].append(["end", which, outcome, code, exc_kind])
        where = "step #%d end(%s) of the call begun at step #%d" % (len(self.case["steps"]), outcome, p["at"])
        fs = self.fs
        self.n_overlap = getattr(self, "n_overlap", 0) + 1
        if not p["via"]:
            with SUT:
                r = fs.__exit__(None, None, None)
            self.n_bypass += 1
            self.ref.neutral()
            return
        self.n_gateway += 1
        exc = None
        try:
            with SUT:
                if outcome == "ok":
                    fs.validate_headers({"content-type": "text/plain"})
                elif outcome == "hdr":
                    fs.validate_headers({"content-type": "text/plain", "x-lunar-error": code})
                elif outcome == "conn":
                    k = len(self.case["steps"])
                    variants = RAISED_AS[self.hook_exc[k % len(self.hook_exc)]]
                    raise variants[(k // len(self.hook_exc)) % len(variants)]("connection to the gateway failed")
                else:
                    raise APP_EXC[exc_kind]("application failure")
        except BaseException as e:  # noqa: BLE001
            if isinstance(e, (PropertyViolation, Infra, NetworkAccess)):
                raise
            exc = e
        with SUT:
            swallowed = fs.__exit__(type(exc), exc, exc.__traceback__) if exc is not None else fs.__exit__(None, None, None)
        if outcome == "ok":
            if exc is not None:
                violation(self.case, "%s: successful gateway call raised %r" % (where, exc))
            self.ref.success()
        elif outcome in ("hdr", "conn"):
            if exc is None:
                violation(self.case, "%s: a response with x-lunar-error: %s was not reported as a gateway-side failure" % (where, code))
            if not swallowed:
                violation(self.case, "%s: gateway-side failure was raised into the application instead of falling back to a direct call: %r" % (where, exc))
            self.n_swallowed += 1
            self.ref.gateway_failure(CLOCK.now)
        else:
            self.n_app += 1
            if swallowed:
                violation(self.case, "%s: application exception %s was swallowed by the fail-safe" % (where, type(exc).__name__))
            self.ref.neutral()

    def finish(self, rec):
        while getattr(self, "pending", None):
            self.end(0, "ok", "1", "value")
        if getattr(self, "n_overlap", 0):
            rec.cls("calls that overlap other steps (begin ... end)", self.n_overlap)
        rec.case()
        rec.cls("machines")
        rec.cls("steps", len(self.case["steps"]))
        rec.cls("calls", self.n_calls)
        rec.cls("calls via gateway", self.n_gateway)
        rec.cls("calls bypassing (open or filtered)", self.n_bypass)
        rec.cls("gateway failures swallowed", self.n_swallowed)
        rec.cls("application exceptions propagated", self.n_app)
        rec.cls("circuit openings", self.ref.opened)
        rec.cls("circuit re-closings", self.ref.reclosed)
        for b, n in self.ref.buckets.items():
            rec.cls(b, n)
        if self.ref.opened:
            rec.cls("machines that opened")
            rec.cls("machines that opened, threshold=%d" % self.ref.T)
        if self.ref.reclosed:
            rec.cls("machines that opened and re-closed")
            if self.ref.reclosed >= 2:
                rec.cls("machines with >=2 open/re-close cycles")
            c = self.case
            rec.non_trivial(canon(c), lambda: json.loads(canon(c)))
        rec.cls("threshold=%d" % self.ref.T)


def replay_breaker(case, cls=BreakerHarness):
    h = cls(int(case["T"]), int(case["C"]), int(case.get("hooks", 1))) if cls is BreakerHarness else cls(int(case["T"]), int(case["C"]))
    for s in case["steps"]:
        if s[0] == "adv":
            h.advance(float(s[1]))
        elif s[0] == "peek":
            h.peek()
        elif s[0] == "call":
            h.call(*s[1:])
        elif s[0] == "begin":
            h.begin(*s[1:])
        elif s[0] == "end":
            h.end(*s[1:])
        else:
            raise Infra("unknown step %r in replay" % (s,))
    h.finish(REC)
    return h


# --------------------------------------------------------------------------------------
# (b) hook harness: the real RequestsHook closure with stub requests / yarl modules
# --------------------------------------------------------------------------------------
GATEWAY_HOST = "gateway.test"
GATEWAY_PORT = 8000
GATEWAY_HOSTPORT = "%s:%d" % (GATEWAY_HOST, GATEWAY_PORT)


class World:
    """What the stub `requests.Session.request` does for the current call."""

    def __init__(self):
        self.calls = []
        self.gateway = ("ok", None, 0.0)  # outcome, payload (error code | exception object), duration
        self.direct = ("ok", None)


WORLD = World()


def install_stub_libs():
    # --- yarl ---
    yarl = types.ModuleType("yarl")

    class URL:
        _DEFAULT = {"http": 80, "https": 443, "ws": 80, "wss": 443}

        def __init__(self, val=""):
            if isinstance(val, URL):
                val = str(val)
            self._s = urlsplit(str(val))

        @property
        def scheme(self):
            return self._s.scheme

        @property
        def host(self):
            return self._s.hostname

        @property
        def port(self):
            p = self._s.port
            return p if p is not None else self._DEFAULT.get(self._s.scheme)

        @property
        def explicit_port(self):
            return self._s.port

        def is_default_port(self):
            p = self._s.port
            return p is None or p == self._DEFAULT.get(self._s.scheme)

        @staticmethod
        def _netloc(host, port):
            h = "[%s]" % host if host and ":" in host else (host or "")
            return h if port is None else "%s:%d" % (h, port)

        def _replace(self, **kw):
            return URL(urlunsplit(self._s._replace(**kw)))

        def with_scheme(self, scheme):
            return self._replace(scheme=scheme)

        def with_host(self, host):
            return self._replace(netloc=self._netloc(host, self._s.port))

        def with_port(self, port):
            return self._replace(netloc=self._netloc(self._s.hostname, port))

        @property
        def path(self):
            return self._s.path

        def __str__(self):
            return urlunsplit(self._s)

        def __repr__(self):
            return "URL(%r)" % str(self)

    yarl.URL = URL
    sys.modules["yarl"] = yarl

    # --- requests ---
    rq = types.ModuleType("requests")
    rq.__path__ = []

    class RequestException(IOError):
        pass

    class ConnectionError(RequestException):  # noqa: A001
        pass

    class Timeout(RequestException):
        pass

    class ReadTimeout(Timeout):
        pass

    class ConnectTimeout(ConnectionError, Timeout):
        pass

    class SSLError(ConnectionError):
        pass

    class ProxyError(ConnectionError):
        pass

    class HTTPError(RequestException):
        pass

    class CaseInsensitiveDict(dict):
        def __init__(self, data=None, **kw):
            super().__init__()
            for k, v in dict(data or {}, **kw).items():
                self[k] = v

        def __setitem__(self, k, v):
            super().__setitem__(k.lower(), v)

        def __getitem__(self, k):
            return super().__getitem__(k.lower())

        def __contains__(self, k):
            return isinstance(k, str) and super().__contains__(k.lower())

        def get(self, k, default=None):
            return super().get(k.lower(), default)

        def pop(self, k, *a):
            return super().pop(k.lower(), *a)

        def copy(self):
            return CaseInsensitiveDict(dict(self))

    class Response:
        def __init__(self, status, headers, via):
            self.status_code = status
            self.headers = CaseInsensitiveDict(headers)
            self.content = b"{}"
            self.via = via

    class Session:
        def request(self, method, url, *args, **kwargs):
            u = urlsplit(url)
            via = "gateway" if (u.hostname == GATEWAY_HOST and u.port == GATEWAY_PORT) else "direct"
            WORLD.calls.append({"via": via, "method": method, "url": url,
                                "headers": dict(kwargs.get("headers") or {}),
                                "kw": sorted(k for k in kwargs if k != "headers")})
            if via == "gateway":
                outcome, payload, dur = WORLD.gateway[:3]
                retries, retry_after = (tuple(WORLD.gateway[3:5]) + (0, 0.0))[:2] if len(WORLD.gateway) > 3 else (0, 0.0)
                CLOCK.advance(dur)
                n_gw = sum(1 for c in WORLD.calls if c["via"] == "gateway")
                WORLD.last_gateway_answer_at = CLOCK.now
                if n_gw <= retries:
                    # the gateway's retry protocol: "send this again in <n> seconds, quoting this sequence id"
                    r = Response(429, {"content-type": "text/plain", "x-lunar-retry-after": repr(float(retry_after)),
                                       "x-lunar-sequence-id": "seq-%d" % len(WORLD.calls)}, via)
                elif outcome == "ok":
                    r = Response(200, {"content-type": "text/plain"}, via)
                elif outcome == "hdr":
                    r = Response(503, {"content-type": "text/plain", "X-Lunar-Error": payload}, via)
                elif outcome == "conn":
                    # the class the hook registers, or one of its more specific kinds (as in the real library)
                    kinds = (ConnectionError, ConnectTimeout, SSLError, ProxyError)
                    raise kinds[len(WORLD.calls) % len(kinds)]("cannot connect to the gateway")
                else:
                    raise payload
            else:
                outcome, payload = WORLD.direct
                if outcome != "ok":
                    raise payload
                r = Response(200, {"content-type": "text/plain"}, via)
            WORLD.calls[-1]["response"] = r
            return r

    def get(url, **kw):
        return Session().request("GET", url, **kw)

    models = types.ModuleType("requests.models")
    models.CaseInsensitiveDict, models.Response = CaseInsensitiveDict, Response
    sessions = types.ModuleType("requests.sessions")
    sessions.Session = Session
    exceptions = types.ModuleType("requests.exceptions")
    for c in (RequestException, ConnectionError, Timeout, ReadTimeout, HTTPError, ConnectTimeout, SSLError, ProxyError):
        setattr(exceptions, c.__name__, c)
        setattr(rq, c.__name__, c)
    rq.Session, rq.Response, rq.get = Session, Response, get
    rq.models, rq.sessions, rq.exceptions = models, sessions, exceptions
    sys.modules.update({"requests": rq, "requests.models": models, "requests.sessions": sessions,
                        "requests.exceptions": exceptions})
    S.rq = rq
    S.rq_original_request = Session.request


# destinations of the hook machine: name -> (host, resolver entry | None)
HOOK_DESTS = {
    "public_ip": ("93.184.216.34", None),
    "public_name": ("api.example.com", [0, "gaierror", "93.184.216.34"]),
    "private_ip": ("10.1.2.3", None),
    "loopback_ip": ("127.0.0.1", None),
    "edge_ip": ("172.31.255.255", None),
    "private_name": ("db.internal", [0, "gaierror", "192.168.0.7"]),
    "blocked_name": ("do-not-use.com", [0, "gaierror", "151.101.1.69"]),
    "other_name": ("other.example.org", [0, "gaierror", "8.8.4.4"]),
    "ipv6": ("::1", None),
    "illformed": ("a..b", None),
}
HOOK_FILTERS = {
    "none": (None, None),
    "block": ("do-not-use.com,203.0.113.9", None),
    "allow": (None, "api.example.com,93.184.216.34"),
}
HOOK_APP_EXC = ("value", "runtime", "app", "key")  # raised while the request goes through the gateway
HOOK_DIRECT_EXC = ("value", "app", "read_timeout", "http_error", "conn")  # raised by the direct request


def hook_exc(kind):
    if kind == "read_timeout":
        return S.rq.exceptions.ReadTimeout("provider timed out")
    if kind == "http_error":
        return S.rq.exceptions.HTTPError("bad status")
    if kind == "conn":
        return S.rq.exceptions.ConnectionError("provider unreachable")
    return APP_EXC[kind]("application failure")


class HookHarness:
    def __init__(self, threshold, cooldown, filt):
        CLOCK.reset()
        self.case = {"T": threshold, "C": cooldown, "filter": filt, "steps": []}
        self.ref = RefBreaker(threshold, cooldown)
        self.block, self.allow = HOOK_FILTERS[filt]
        RES.table = {h: list(e) for (h, e) in HOOK_DESTS.values() if e is not None}
        RES.step = 0
        S.rq.Session.request = S.rq_original_request
        self.fs = build_fail_safe(threshold, cooldown)
        self.tf = build_traffic_filter(self.block, self.allow)
        conf = interceptor_config(threshold=threshold, cooldown=cooldown)
        self.hook = None
        try:
            with SUT:
                self.hook = S.hook_mod.RequestsHook(logger=S.logger, fail_safe=self.fs, traffic_filter=self.tf,
                                                    lunar_proxy_configuration=conf.connection_config)
                self.hook.init_hooks()
        except Exception as e:  # noqa: BLE001
            raise Infra("RequestsHook could not be installed on the stub requests module: %r" % (e,))
        self.session = S.rq.Session()
        self.n_calls = self.n_gateway = self.n_direct = self.n_fallback = self.n_app = self.n_known = self.n_retried = self.n_override = 0

    def close(self):
        if self.hook is not None:
            with SUT:
                self.hook.remove_hooks()
            self.hook = None

    def advance(self, delta):
        self.case["steps"].append(["adv", delta])
        CLOCK.advance(delta)

    def call(self, dest, gw, code, gw_exc, dur, direct, direct_exc, method, with_headers, retries=0, retry_after=0.0, override=None):
        self.case["steps"].append(["call", dest, gw, code, gw_exc, dur, direct, direct_exc, method, bool(with_headers),
                                   int(retries), float(retry_after), override])
        where = "step #%d %s %s (gateway would answer %s%s, provider %s)" % (
            len(self.case["steps"]), method, dest,
            "%d time(s) 'send again in %ss', then " % (retries, retry_after) if retries else "", gw, direct)
        host = HOOK_DESTS[dest][0]
        url = "https://%s/v1/items?q=1" % ("[%s]" % host if ":" in host else host)
        gw_payload = code if gw == "hdr" else (hook_exc(gw_exc) if gw == "app" else None)
        direct_payload = hook_exc(direct_exc) if direct != "ok" else None
        WORLD.calls = []
        WORLD.gateway = (gw, gw_payload, dur, int(retries), float(retry_after))
        WORLD.direct = (direct, direct_payload)
        WORLD.last_gateway_answer_at = None
        t_start = CLOCK.now
        kwargs = {"timeout": 3}
        if with_headers:
            kwargs["headers"] = {"accept": "application/json"}
        if override is not None:
            # the per-request override (x-lunar-allow: true / false): what it does to THIS call is the operator's
            # decision and not judged; it must not change how later calls without it are routed
            kwargs.setdefault("headers", {})["x-lunar-allow"] = override
            self.n_override += 1
        req_headers = dict(kwargs.get("headers") or {})
        result = escaped = None
        self.n_calls += 1
        try:
            with SUT:
                result = self.session.request(method, url, **kwargs)
        except BaseException as e:  # noqa: BLE001
            if isinstance(e, (PropertyViolation, Infra, NetworkAccess)):
                raise
            escaped = e
        calls = WORLD.calls
        must, why = filter_expect(self.block, self.allow, RES.table, 0, host, req_headers if override is not None else None)
        closed_options = self.ref.may_be(t_start)

        # the filter's decision raised into the application?
        if not calls and escaped is not None:
            fid = finding_for_raise(self.block, self.allow, host, None, escaped)
            if fid and True in closed_options and REC.known_finding(fid, lambda: {"url": url, "raised": repr(escaped)}):
                self.n_known += 1
                self.ref.observe_closed(t_start, True)
                self.ref.neutral()
                return
            violation(self.case, "%s: the interceptor raised %r into the application before any request was sent" % (where, escaped))
        if not calls:
            violation(self.case, "%s: no request was sent at all (result %r)" % (where, result))
        routed = calls[0]["via"] == "gateway"
        # must is None only for destinations the statement leaves open: judged as "allowed" iff they were routed
        allowed = must if must is not None else routed
        # breaker consistency
        if allowed:
            prev = self.ref.describe(t_start)
            if not self.ref.observe_closed(t_start, routed):
                violation(self.case, "%s: request was %s at t=+%.2fs but every reading of the statement requires the fail-safe to be %s "
                          "(threshold %d, cool-down %ds; reference states [state, seconds since trip, failures]: %s)" % (
                              where, "sent through the gateway" if routed else "sent directly", t_start - CLOCK.BASE,
                              "open (bypass)" if routed else "closed (use the gateway)", self.ref.T, self.ref.C, prev))
        elif routed:
            violation(self.case, "%s: routed through the gateway although %s" % (where, why))

        def expect_direct_tail(tail, what):
            if len(tail) != 1 or tail[0]["via"] != "direct":
                violation(self.case, "%s: expected exactly one direct request %s, saw %s" % (
                    where, what, [(c["via"], c["url"]) for c in calls]))
            d = tail[0]
            if d["url"] != url:
                violation(self.case, "%s: direct request went to %s instead of the provider %s" % (where, d["url"], url))
            if direct == "ok":
                if escaped is not None:
                    violation(self.case, "%s: direct request succeeded but %r was raised into the application" % (where, escaped))
                if result is not d.get("response"):
                    violation(self.case, "%s: the provider's response was not returned to the application" % (where,))
            else:
                if escaped is not direct_payload:
                    violation(self.case, "%s: error of the direct request %r did not reach the application unchanged (got %r, result %r)" % (
                        where, direct_payload, escaped, result))

        if routed:
            self.n_gateway += 1
            if retries:
                # the gateway's retry protocol: every "send again" answer is followed by the same request through the
                # gateway; the call as a whole ends the way its last gateway request ends
                self.n_retried += 1
                head = calls[:retries + 1]
                if len(head) != retries + 1 or any(c["via"] != "gateway" for c in head):
                    violation(self.case, "%s: expected %d requests through the gateway (the first %d answered 'send again'), saw %s" % (
                        where, retries + 1, retries, [c["via"] for c in calls]))
                calls = calls[retries:]
            g = calls[0]  # how the gateway request is shaped (headers, path) is not part of the statement
            if gw == "ok":
                if len(calls) != 1:
                    violation(self.case, "%s: successful gateway call followed by further requests %s" % (where, [(c["via"]) for c in calls]))
                if escaped is not None:
                    violation(self.case, "%s: successful gateway call raised %r into the application" % (where, escaped))
                if result is not g.get("response"):
                    violation(self.case, "%s: the gateway's response was not returned to the application" % (where,))
                self.ref.success()
            elif gw in ("hdr", "conn"):
                self.n_fallback += 1
                expect_direct_tail(calls[1:], "after the gateway-side failure")
                self.ref.gateway_failure(WORLD.last_gateway_answer_at if retries else t_start + dur)
            else:
                self.n_app += 1
                if len(calls) != 1:
                    violation(self.case, "%s: application exception from the call followed by further requests" % (where,))
                if escaped is None:
                    violation(self.case, "%s: non-gateway exception %r was swallowed" % (where, gw_payload))
                if escaped is not gw_payload:
                    violation(self.case, "%s: non-gateway exception was replaced: raised %r, got %r" % (where, gw_payload, escaped))
                self.ref.neutral()
        else:
            self.n_direct += 1
            expect_direct_tail(calls, "for a bypassed/filtered destination")
            if direct != "ok":
                self.n_app += 1
            self.ref.neutral()

    def finish(self, rec):
        self.close()
        rec.case()
        rec.cls("machines")
        rec.cls("filter=%s" % self.case["filter"])
        rec.cls("steps", len(self.case["steps"]))
        rec.cls("calls", self.n_calls)
        rec.cls("calls via gateway", self.n_gateway)
        rec.cls("calls the gateway first answered with 'send again' (retry protocol)", self.n_retried)
        rec.cls("calls sent directly (open or filtered)", self.n_direct)
        rec.cls("calls that carry the per-request override header x-lunar-allow", self.n_override)
        rec.cls("gateway failures followed by direct fallback", self.n_fallback)
        rec.cls("non-gateway exceptions propagated", self.n_app)
        rec.cls("decision raised (known finding)", self.n_known)
        rec.cls("circuit openings", self.ref.opened)
        rec.cls("circuit re-closings", self.ref.reclosed)
        for b, n in self.ref.buckets.items():
            rec.cls(b, n)
        if self.ref.opened:
            rec.cls("machines that opened")
        if self.ref.reclosed:
            rec.cls("machines that opened and re-closed")
            c = self.case
            rec.non_trivial(canon(c), lambda: json.loads(canon(c)))


def replay_hook(case):
    h = HookHarness(int(case["T"]), int(case["C"]), case["filter"])
    try:
        for s in case["steps"]:
            if s[0] == "adv":
                h.advance(float(s[1]))
            elif s[0] == "call":
                h.call(*s[1:])
            else:
                raise Infra("unknown step %r in replay" % (s,))
    finally:
        h.close()
    h.finish(REC)


# --------------------------------------------------------------------------------------
# (c) traffic filter
# --------------------------------------------------------------------------------------
EDGE_ADDRS = [
    "9.255.255.255", "10.0.0.0", "10.255.255.255", "11.0.0.0",
    "126.255.255.255", "127.0.0.0", "127.255.255.255", "128.0.0.0",
    "172.15.255.255", "172.16.0.0", "172.31.255.255", "172.32.0.0",
    "192.167.255.255", "192.168.0.0", "192.168.255.255", "192.169.0.0",
]
EDGE_SET = set(EDGE_ADDRS)


def run_filter_case(case):
    """case: {"block": str|None, "allow": str|None, "resolver": {name: [until, kind, addr|None]},
              "queries": [[host, headers|None], ...]}"""
    rec = REC
    block, allow = case["block"], case["allow"]
    RES.table = {k: list(v) for k, v in case["resolver"].items()}
    RES.step = 0
    RES.raised = None
    try:
        tf = build_traffic_filter(block, allow)
    except Infra:
        raise
    except Exception as e:  # noqa: BLE001
        violation(case, "building the TrafficFilter from LUNAR_BLOCK_LIST=%r LUNAR_ALLOW_LIST=%r raised %r" % (block, allow, e))
    bl, al = split_list(block), split_list(allow)
    # membership is what a list decides by: the same lists with every entry written twice (next to each other / once
    # more at the end) must give the same answers
    twins = []
    if bl or al:
        def twice(entries, adjacent):
            if not entries:
                return None
            return ",".join([e for x in entries for e in (x, x)] if adjacent else list(entries) + list(entries))
        for adjacent in (True, False):
            try:
                twins.append((build_traffic_filter(twice(bl, adjacent) if block else block, twice(al, adjacent) if allow else allow),
                              "next to each other" if adjacent else "once more at the end"))
            except Infra:
                raise
            except Exception as e:  # noqa: BLE001
                violation(case, "building the TrafficFilter from the same lists with every entry written twice raised %r" % (e,))
    rec.cls("lists: " + ("allow+block" if (al and bl) else "allow only" if al else "block only" if bl else "none"))
    if bl and not all(entry_surely_valid(e) for e in bl):
        rec.cls("lists: block list has an invalid/doubtful entry")
    if al and not all(entry_surely_valid(e) for e in al):
        rec.cls("lists: allow list has an invalid/doubtful entry")
    nontrivial = False
    seen = set()
    for i, (host, headers) in enumerate(case["queries"]):
        RES.step = i
        RES.raised = None
        hdrs = dict(headers) if headers is not None else None
        must, why = filter_expect(block, allow, RES.table, i, host, hdrs)
        dest = resolve_now(host, RES.table, i)
        res = exc = None
        try:
            with SUT:
                res = tf.is_allowed(host, hdrs)
        except (PropertyViolation, Infra, NetworkAccess):
            raise
        except BaseException as e:  # noqa: BLE001
            exc = e
        # ---- classes
        try:
            lit = ipaddress.ip_address(host).version
        except ValueError:
            lit = 0
        kind = ("IPv4 literal" if lit == 4 else "IPv6 literal" if lit == 6 else
                "ill-formed name" if dest == ("ill",) else
                "numeric form resolved locally" if numeric_form(host) else
                "name resolving" if dest[0] == "ip" else "name not resolving")
        rec.cls("queries")
        rec.cls("dest: " + kind)
        if dest[0] == "ip":
            rec.cls("dest address: " + addr_class(dest[1]))
            if dest[1] in EDGE_SET:
                rec.cls("dest address on a range edge")
                nontrivial = True
        if host in seen:
            rec.cls("dest repeated within the case (cache)")
        seen.add(host)
        if bl and host in bl:
            rec.cls("dest on block list")
        if al and host in al:
            rec.cls("dest on allow list")
        if hdrs and "x-lunar-allow" in (headers or {}):
            rec.cls("x-lunar-allow header present")
        rec.cls("oracle: " + ("must be refused" if must is False else "must be forwarded" if must else "open"))
        # ---- oracle
        where = "query #%d is_allowed(%r, %r) with LUNAR_BLOCK_LIST=%r LUNAR_ALLOW_LIST=%r" % (i, host, headers, block, allow)
        if exc is not None:
            fid = finding_for_raise(block, allow, host, headers, exc)
            if fid and rec.known_finding(fid, lambda: {"block": block, "allow": allow, "host": host, "raised": repr(exc)}):
                rec.cls("raised, attributed to " + fid)
                continue
            violation(case, "%s raised %s: %s (destination %s)" % (where, type(exc).__name__, exc, dest))
        if not isinstance(res, bool):
            violation(case, "%s returned %r, not a bool" % (where, res))
        rec.cls("answer: " + ("forward" if res else "refuse"))
        if must is not None and res != must:
            violation(case, "%s returned %s although %s (destination %s)" % (where, res, why, dest))
        for tf2, how in twins:
            res2 = None
            try:
                with SUT:
                    res2 = tf2.is_allowed(host, dict(headers) if headers is not None else None)
            except (PropertyViolation, Infra, NetworkAccess):
                raise
            except BaseException:  # noqa: BLE001
                continue  # raising is judged above, on the lists as given
            rec.cls("answers compared with the same lists written twice")
            if res2 != res:
                violation(case, "%s returned %s, but %s with every list entry written twice (%s): a decision depends on how often an entry is written" % (where, res, res2, how))
    rec.case()
    if nontrivial:
        rec.non_trivial(canon(case), lambda: json.loads(canon(case)))


# --------------------------------------------------------------------------------------
# Hypothesis front ends
# --------------------------------------------------------------------------------------
def hyp_settings(checks, **kw):
    from hypothesis import HealthCheck, Phase, settings
    return settings(max_examples=checks, database=None, deadline=None, derandomize=False,
                    suppress_health_check=list(HealthCheck), phases=(Phase.generate, Phase.shrink),
                    report_multiple_bugs=False, print_blob=False, **kw)


def packed(fields):
    """One integer per rule invocation (mixed radix over the option lists; duplicates are weights).
    Hypothesis' shrinker deletes at most five consecutive choices at a time, so a step drawn as ten
    separate choices can never be removed from a failing history; drawn as one it can."""
    from hypothesis import strategies as st
    size = 1
    for _, opts in fields:
        size *= len(opts)

    def decode(n):
        out = {}
        for name, opts in fields:
            n, r = divmod(n, len(opts))
            out[name] = opts[r]
        return out
    return st.integers(0, size - 1).map(decode)


WAIT_OPTS = [None, None, None, None, None, -0.25, -0.125, 0.0, 0.0, 0.125, 0.25, 1.0]
ADV_FIELDS = [("mode", ["abs", "abs", "cool", "cool", "expiry", "expiry", "expiry"]),
              ("q", [0.0, 0.25, 0.5, 1.0, 1.5, 2.0, 3.0]),
              ("off", [0.0, -1.0, -0.5, -0.25, -0.125, 0.0, 0.125, 0.25, 0.5, 1.0])]


def do_advance(h, mode, q, off):
    if mode == "abs":
        d = q
    elif mode == "cool":
        d = h.ref.C + off
    else:  # jump relative to the expiry instant of a tripped breaker
        trips = [trip for (op, trip, _) in h.ref.states if op]
        d = (min(trips) + h.ref.C + off - CLOCK.now) if trips else q
    h.advance(max(0.0, d))


def wait_for_expiry(h, off):
    """Optional prelude of a call: if the reference breaker is open, move the clock to its expiry
    instant + off (recorded as an ordinary `adv` step)."""
    if off is None:
        return
    trips = [trip for (op, trip, _) in h.ref.states if op]
    if trips:
        h.advance(max(0.0, min(trips) + h.ref.C + off - CLOCK.now))


def test_breaker_machine(checks, seed_value):
    from hypothesis import seed, strategies as st
    from hypothesis.stateful import RuleBasedStateMachine, initialize, rule, run_state_machine_as_test

    call_args = packed([
        ("outcome", ["ok", "hdr", "hdr", "conn", "conn", "conn", "app"]),
        ("allowed", [True, True, True, True, True, True, False]),
        ("wait", WAIT_OPTS),
        ("dur", [0.0, 0.0, 0.0, 0.25, 1.0]),
        ("code", list(ERR_CODES)),
        ("exc_kind", sorted(APP_EXC)),
    ])
    fail_args = packed([("outcome", ["conn", "hdr"]), ("wait", WAIT_OPTS), ("dur", [0.0, 0.0, 0.25]), ("code", list(ERR_CODES))])
    adv_args = packed(ADV_FIELDS)
    end_args = packed([("which", [0, 0, 1, 2]), ("outcome", ["ok", "ok", "ok", "hdr", "conn", "app"]), ("code", list(ERR_CODES)), ("exc_kind", sorted(APP_EXC))])
    outage_args = packed([("fail", ["conn", "hdr"]), ("extra", [0, 0, 1]), ("end_after_expiry", [False, False, True]), ("off", [0.125, 0.25, 1.0, 3.0]),
                          ("outcome", ["ok", "ok", "ok", "conn"]), ("after", [1, 1, 2]), ("code", list(ERR_CODES))])

    class BreakerMachine(RuleBasedStateMachine):
        def __init__(self):
            super().__init__()
            self.h = None

        @initialize(threshold=st.integers(1, 5), cooldown=st.integers(1, 10), hooks=st.sampled_from([1, 1, 2, 3]))
        def configure(self, threshold, cooldown, hooks):
            self.h = BreakerHarness(threshold, cooldown, hooks)
            if hooks > 1:
                REC.cls("several hooks registered on one fail-safe")

        @rule(a=call_args)
        def call(self, a):
            wait_for_expiry(self.h, a["wait"])
            self.h.call(a["outcome"], a["allowed"], a["dur"], a["code"], a["exc_kind"])

        @rule(a=fail_args)
        def failing_call(self, a):
            wait_for_expiry(self.h, a["wait"])
            self.h.call(a["outcome"], True, a["dur"], a["code"], "value")

        @rule(a=adv_args)
        def advance(self, a):
            do_advance(self.h, a["mode"], a["q"], a["off"])

        @rule()
        def peek(self):
            self.h.peek()

        @rule(allowed=st.sampled_from([True, True, True, False]))
        def begin_call(self, allowed):
            if len(getattr(self.h, "pending", None) or []) < 3:
                self.h.begin(allowed)

        @rule(a=end_args)
        def end_call(self, a):
            self.h.end(a["which"], a["outcome"], a["code"], a["exc_kind"])

        @rule(a=outage_args)
        def slow_call_across_an_outage(self, a):
            # a call is in flight through the gateway while other calls fail until the breaker trips; it ends
            # (mostly well) during or after the cool-down; then the gateway fails again once or twice
            self.h.begin(True)
            for _ in range(self.h.ref.T + a["extra"]):
                self.h.call(a["fail"], True, 0.0, a["code"], "value")
            if a["end_after_expiry"]:
                self.h.advance(self.h.ref.C + a["off"])
            self.h.end(-1, a["outcome"], a["code"], "value")
            if not a["end_after_expiry"]:
                self.h.advance(self.h.ref.C + a["off"])
            for _ in range(a["after"]):
                self.h.call(a["fail"], True, 0.0, a["code"], "value")
            self.h.peek()

        def teardown(self):
            if self.h is not None:
                self.h.finish(REC)

    run_state_machine_as_test(seed(seed_value)(BreakerMachine), settings=hyp_settings(checks, stateful_step_count=50))


def test_requests_hook(checks, seed_value):
    from hypothesis import seed, strategies as st
    from hypothesis.stateful import RuleBasedStateMachine, initialize, rule, run_state_machine_as_test

    call_args = packed([
        ("dest", ["public_ip"] * 6 + ["public_name"] * 6 + ["private_ip", "loopback_ip", "edge_ip", "private_name",
                                                            "blocked_name", "other_name", "ipv6", "illformed"]),
        ("gw", ["ok", "hdr", "hdr", "conn", "conn", "conn", "app"]),
        ("wait", WAIT_OPTS),
        ("direct", ["ok", "ok", "ok", "exc"]),
        ("dur", [0.0, 0.0, 0.0, 0.25, 1.0]),
        ("code", list(ERR_CODES)),
        ("gw_exc", list(HOOK_APP_EXC)),
        ("direct_exc", list(HOOK_DIRECT_EXC)),
        ("method", ["GET", "POST"]),
        ("with_headers", [False, True]),
        ("retries", [0, 0, 0, 0, 1, 1, 2, 3]),
        ("retry_after", [0.0, 0.5, 2.0]),
        ("override", [None, None, None, None, None, "true", "true", "false"]),
    ])
    fail_args = packed([("dest", ["public_ip", "public_name"]), ("gw", ["conn", "hdr"]), ("wait", WAIT_OPTS),
                        ("direct", ["ok", "ok", "exc"]), ("dur", [0.0, 0.0, 0.25]), ("code", list(ERR_CODES)),
                        ("direct_exc", list(HOOK_DIRECT_EXC)), ("retries", [0, 0, 1, 2]), ("retry_after", [0.0, 0.5])])
    adv_args = packed(ADV_FIELDS)
    override_args = packed([("dest", ["private_ip", "loopback_ip", "edge_ip", "private_name", "blocked_name", "other_name", "public_ip"]),
                            ("override", ["true", "true", "false"]), ("method", ["GET", "POST"])])

    class HookMachine(RuleBasedStateMachine):
        def __init__(self):
            super().__init__()
            self.h = None

        @initialize(threshold=st.integers(1, 5), cooldown=st.integers(1, 10), filt=st.sampled_from(sorted(HOOK_FILTERS)))
        def configure(self, threshold, cooldown, filt):
            self.h = HookHarness(threshold, cooldown, filt)

        @rule(a=call_args)
        def call(self, a):
            wait_for_expiry(self.h, a["wait"])
            self.h.call(a["dest"], a["gw"], a["code"], a["gw_exc"], a["dur"], a["direct"], a["direct_exc"],
                        a["method"], a["with_headers"], a["retries"], a["retry_after"], a["override"])

        @rule(a=fail_args)
        def failing_call(self, a):
            wait_for_expiry(self.h, a["wait"])
            self.h.call(a["dest"], a["gw"], a["code"], "value", a["dur"], a["direct"], a["direct_exc"], "GET", False,
                        a["retries"], a["retry_after"])

        @rule(a=override_args)
        def overridden_then_plain(self, a):
            # a destination the filter excludes is called once with the per-request override and then without it
            for ov in (a["override"], None):
                self.h.call(a["dest"], "ok", "1", "value", 0.0, "ok", "value", a["method"], False, 0, 0.0, ov)

        @rule(a=adv_args)
        def advance(self, a):
            do_advance(self.h, a["mode"], a["q"], a["off"])

        def teardown(self):
            if self.h is not None:
                try:
                    self.h.finish(REC)
                finally:
                    self.h.close()

    run_state_machine_as_test(seed(seed_value)(HookMachine), settings=hyp_settings(checks, stateful_step_count=40))


NAME_POOL = ["api.example.com", "svc.internal", "httpbinmock", "use.com", "do-not-use.com", "a.io",
             "x1.y2.z3.org", "edge.test", "localhost"]
PUBLIC_ADDRS = ["8.8.8.8", "1.1.1.1", "93.184.216.34", "17.253.144.10", "12.0.0.1", "100.1.2.3", "19.5.5.5",
                "101.0.0.1", "172.217.0.46", "192.16.8.1", "13.107.42.14"]
SPECIAL_ADDRS = ["0.0.0.0", "169.254.1.1", "100.64.0.1", "224.0.0.1", "255.255.255.255", "198.18.0.1", "192.0.2.1"]
IPV6_ADDRS = ["::1", "::", "fe80::1", "fc00::1", "fd12:3456:789a::1", "2001:4860:4860::8888", "::ffff:10.0.0.1",
              "::ffff:8.8.8.8", "::ffff:127.0.0.1", "2001:db8::1", "0:0:0:0:0:0:0:1"]
NUMERIC_FORMS = ["127.1", "2130706433", "0x7f.0.0.1", "0177.0.0.1", "10.1", "192.168.1", "172.16.1", "8.8.2056", "0x08080808"]
ILL_FORMED = ["a..b", ".a.com", "a" * 64 + ".com", "b" * 70, "x." + "c" * 65 + ".org", "api..example.com",
              "אa.com", "a͸.com", "..", "a.com.."]
ODD_NAMES = ["-a.com", "a-.com", "a_b.com", "ü.com", "a.com.", "xn--nxasmq6b.com", "UPPER.example.com", "", "a",
             "none", "1.2.3.4.5", "999.1.1.1", "1.2.3", "01.2.3.4", "a.b", "a-b"]
INVALID_ENTRIES = ["bad_host", " a.com", "a.com ", "*.a.com", "", "1.2.3", "999.1.1.1", "a", "http://a.com",
                   "a.com:80", "ü.com", "a..b", "a-b"]
DOUBTFUL_ENTRIES = ["API.Example.COM", "Use.com", "a.b", "my-host", "a.com."]


def filter_case_strategy():
    """All sub-strategies are built once; inside the composite only integers are drawn for the choices
    that depend on the case (building strategies per draw made generation 5x slower than the property)."""
    from hypothesis import strategies as st

    label = st.text(alphabet="abcxyz019", min_size=1, max_size=6)
    gen_name = st.builds(lambda ls, tld: ".".join(ls + [tld]), st.lists(label, min_size=0, max_size=2),
                         st.sampled_from(["com", "io", "internal", "test", "ab"]))
    name = st.one_of(st.sampled_from(NAME_POOL), st.sampled_from(NAME_POOL), gen_name)
    octet = st.integers(0, 255)
    private_v4 = st.one_of(
        st.builds(lambda b, c, d: "10.%d.%d.%d" % (b, c, d), octet, octet, octet),
        st.builds(lambda b, c, d: "127.%d.%d.%d" % (b, c, d), octet, octet, octet),
        st.builds(lambda b, c, d: "172.%d.%d.%d" % (b, c, d), st.integers(16, 31), octet, octet),
        st.builds(lambda c, d: "192.168.%d.%d" % (c, d), octet, octet),
    )
    near_v4 = st.one_of(
        st.builds(lambda b, c, d: "172.%d.%d.%d" % (b, c, d), st.sampled_from([0, 15, 32, 100, 255]), octet, octet),
        st.builds(lambda b, c, d: "192.%d.%d.%d" % (b, c, d), st.sampled_from([0, 16, 167, 169, 255]), octet, octet),
        st.builds(lambda a, b, c, d: "%d.%d.%d.%d" % (a, b, c, d),
                  st.sampled_from([1, 9, 11, 12, 17, 19, 100, 101, 126, 128, 171, 173, 191, 193]), octet, octet, octet),
    )
    any_v4 = st.builds(lambda a, b, c, d: "%d.%d.%d.%d" % (a, b, c, d), octet, octet, octet, octet)
    ipv4 = st.one_of(st.sampled_from(EDGE_ADDRS), st.sampled_from(EDGE_ADDRS), private_v4, near_v4,
                     st.sampled_from(PUBLIC_ADDRS), st.sampled_from(PUBLIC_ADDRS), st.sampled_from(SPECIAL_ADDRS), any_v4)
    ipv6 = st.sampled_from(IPV6_ADDRS)
    resolution = st.tuples(st.sampled_from([0, 0, 0, 0, 1, 2, 3]), st.sampled_from(sorted(_FAILS)),
                           st.one_of(ipv4, ipv4, ipv4, ipv4, st.none())).map(list)
    names_s = st.lists(name, min_size=0, max_size=4, unique=True)
    ips_s = st.lists(st.one_of(ipv4, ipv4, ipv6), min_size=0, max_size=3)
    bad_entries = INVALID_ENTRIES + DOUBTFUL_ENTRIES
    static_host = st.one_of(ipv4, ipv4, ipv4, ipv6, ipv6, st.sampled_from(NUMERIC_FORMS), st.sampled_from(ILL_FORMED),
                            st.sampled_from(ILL_FORMED), st.sampled_from(ODD_NAMES), name)
    headers = st.sampled_from([None, None, None, None, None, {}, {"accept": "*/*"}, {"accept": "*/*", "x-trace": "1"},
                               {"x-lunar-allow": "true"}, {"x-lunar-allow": "false"}, {"x-lunar-allow": "TRUE", "a": "b"}])
    pct = st.integers(0, 99)
    small = st.integers(0, 11)
    n_entries = st.integers(1, 4)
    n_queries = st.integers(1, 5)
    idx = st.integers(0, 1 << 16)

    @st.composite
    def case(draw):
        names = draw(names_s)
        resolver = {n: draw(resolution) for n in names}
        ips = draw(ips_s)
        good_pool = names + ips + ["use.com", "192.168.1.1"]

        def raw_list(p_none, p_bad):
            kind = draw(pct)
            if kind < p_none:
                return None
            if kind < p_none + 4:
                return ""
            pool = good_pool * 2 + bad_entries if kind < p_none + 4 + p_bad else good_pool
            return ",".join(pool[draw(idx) % len(pool)] for _ in range(draw(n_entries)))

        block = raw_list(40, 16)
        allow = raw_list(58, 14)
        listed = [e for raw in (block, allow) for e in (split_list(raw) or [])]
        queries = []
        for _ in range(draw(n_queries)):
            k = draw(small)
            if k < 4 and names:
                host = names[draw(idx) % len(names)]
            elif k < 7 and listed:
                host = listed[draw(idx) % len(listed)]
            elif k < 8 and ips:
                host = ips[draw(idx) % len(ips)]
            else:
                host = draw(static_host)
            queries.append([host, draw(headers)])
        return {"block": block, "allow": allow, "resolver": resolver, "queries": queries}

    return case()


def test_traffic_filter(checks, seed_value):
    from hypothesis import given, seed

    @seed(seed_value)
    @hyp_settings(checks)
    @given(filter_case_strategy())
    def prop(case):
        run_filter_case(case)

    prop()


# ---- witnesses of the proposed known findings (plain tests) --------------------------------
def _witness(fid, host, expect_type, what):
    rec = REC
    rec.exhaustive = False
    case = {"block": None, "allow": None, "resolver": {}, "queries": [[host, None]]}
    RES.table, RES.step, RES.raised = {}, 0, None
    tf = build_traffic_filter(None, None)
    rec.case()
    try:
        with SUT:
            res = tf.is_allowed(host, None)
    except (Infra, NetworkAccess):
        raise
    except BaseException as e:  # noqa: BLE001
        if isinstance(e, expect_type) and finding_for_raise(None, None, host, None, e) == fid:
            rec.cls("defect present")
            if rec.known_finding(fid, lambda: {"host": host, "raised": repr(e)}):
                return
            violation(case, "%s: is_allowed(%r) raised %r into the application and %s is not listed as a known finding" % (what, host, e, fid))
        violation(case, "%s: is_allowed(%r) raised an unexpected %r" % (what, host, e))
    rec.cls("defect absent")
    if res is not False and addr_class_safe(host) == "private":
        violation(case, "%s: is_allowed(%r) returned %r for a loopback destination" % (what, host, res))


def addr_class_safe(host):
    try:
        return addr_class(host)
    except ValueError:
        return None


def test_witness_ipv6(checks, seed_value):
    _witness(F1, "::1", ipaddress.AddressValueError, "IPv6 loopback literal (http://[::1]/...)")


def test_witness_illformed(checks, seed_value):
    _witness(F2, "a..b", UnicodeError, "host with an empty label (http://a..b/)")


TESTS = {
    "TestBreakerMachine": (test_breaker_machine, replay_breaker, False),
    "TestRequestsHook": (test_requests_hook, replay_hook, True),
    "TestTrafficFilter": (test_traffic_filter, run_filter_case, False),
    "TestWitnessIPv6Destination": (test_witness_ipv6, None, False),
    "TestWitnessIllFormedName": (test_witness_illformed, None, False),
}


def main():
    global REC
    ap = argparse.ArgumentParser()
    ap.add_argument("--test", required=True)
    ap.add_argument("--checks", type=int, default=100)
    ap.add_argument("--seed", type=int, default=1)
    ap.add_argument("--replay", default=None)
    a = ap.parse_args()
    if a.test not in TESTS:
        infra_exit("unknown test %s" % a.test)
    fn, replay_fn, needs_hook = TESTS[a.test]
    # Hypothesis keeps caches in ./.hypothesis unless told otherwise: put them into the job's scratch dir
    import atexit
    import shutil
    import tempfile
    hyp_home = tempfile.mkdtemp(prefix="c19-hypothesis-")
    atexit.register(shutil.rmtree, hyp_home, True)
    os.environ["HYPOTHESIS_STORAGE_DIRECTORY"] = hyp_home
    try:
        import hypothesis  # noqa: F401
    except Exception as e:  # noqa: BLE001
        infra_exit("hypothesis is not importable: %r" % (e,))
    from hypothesis import errors as herr
    try:
        REC = Recorder(PROPERTY, a.test)
        load_sut(with_hook=needs_hook)
    except Infra as e:
        infra_exit(e)
    rc = 0
    try:
        if a.replay:
            with open(a.replay) as f:
                info = json.load(f)
            case = (info.get("failure") or {}).get("case") if "failure" in info else info
            if case is None:
                raise Infra("replay file %s carries no failure.case" % a.replay)
            if replay_fn is None:
                fn(a.checks, a.seed)
            else:
                replay_fn(case)
        else:
            fn(max(1, a.checks), a.seed)
    except PropertyViolation as e:
        print("FAIL %s: %s" % (a.test, e), flush=True)
        for n in getattr(e, "__notes__", []) or []:
            print("  | " + str(n)[:600], flush=True)
        rc = 1
    except Infra as e:
        REC.flush()
        infra_exit(e)
    except NetworkAccess as e:
        REC.flush()
        infra_exit(e)
    except (herr.Flaky, herr.FlakyFailure, herr.FlakyStrategyDefinition) as e:
        REC.flush()
        infra_exit("non-deterministic execution reported by Hypothesis: %s" % (e,))
    except BaseException as e:  # noqa: BLE001
        if isinstance(e, (SystemExit, KeyboardInterrupt)):
            raise
        traceback.print_exc()
        REC.flush()
        infra_exit("harness error %r" % (e,))
    if rc == 0 and REC.failed:
        # a failure was recorded while searching but did not reproduce at the end
        REC.failure = None
        REC.flush()
        infra_exit("a recorded failure did not reproduce (non-deterministic)")
    REC.flush()
    if rc == 1 and REC.failure is not None:
        print("minimal failing case: %s" % canon(REC.failure["case"])[:4000], flush=True)
    return rc


if __name__ == "__main__":
    sys.exit(main())
